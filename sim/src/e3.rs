//! E3 — FFI lock-step (C11): one context driven only through the extern "C" functions of
//! rln::ffi, one through the Rust API, one seeded call history, compared after every call.

use ark_bn254::Fr;
use serde_json::{json, Value};
use std::collections::HashSet;
use std::io::Cursor;

use rln::ffi;
use rln::ffi::Buffer;
use rln::public::RLN;

use crate::e1::{enc_vec_fr, enc_vec_u8};
use crate::prng::Prng;
use crate::proto::*;
use crate::util::*;

#[derive(Clone, Debug, PartialEq)]
pub enum Call {
    SetTree { depth: usize },
    SetLeaf { i: usize, bytes: Vec<u8> },
    DeleteLeaf { i: usize },
    SetNextLeaf { bytes: Vec<u8> },
    SetLeavesFrom { i: usize, bytes: Vec<u8> },
    InitTree { bytes: Vec<u8> },
    Atomic { i: usize, leaves: Vec<u8>, indices: Vec<u8> },
    SeqAtomic { leaves: Vec<u8>, indices: Vec<u8> },
    GetLeaf { i: usize },
    GetRoot,
    GetProof { i: usize },
    LeavesSet,
    SetMeta { bytes: Vec<u8> },
    GetMeta,
    Flush,
    Hash { bytes: Vec<u8> },
    PoseidonHash { bytes: Vec<u8> },
    KeyGen,
    ExtKeyGen,
    SeededKeyGen { seed: Vec<u8> },
    SeededExtKeyGen { seed: Vec<u8> },
    /// generate_rln_proof from a request; stores the message in slot `slot`
    GenProof { slot: usize, request: Vec<u8>, signal: Vec<u8> },
    /// get witness via Rust API on each side, then generate_rln_proof_with_witness
    GenWithWitness { slot: usize, request: Vec<u8>, signal: Vec<u8> },
    /// raw prove of a witness (bytes given); output is a 128 byte proof
    Prove { witness: Vec<u8> },
    /// verification family on the message in `slot`: both sides are handed the same bytes (the
    /// message the Rust side produced; proof bytes are random, so each side's own message would
    /// make bit flips in the proof part incomparable)
    Verify { slot: usize, cut: i64 },
    VerifyRln { slot: usize, flip: i64, cut: i64 },
    VerifyRoots { slot: usize, roots_mode: u8, cut: i64 },
    Recover { a: usize, b: usize },
    /// verification family on arbitrary bytes
    VerifyBytes { via: u8, bytes: Vec<u8>, roots: Vec<u8> },
    RecoverBytes { a: Vec<u8>, b: Vec<u8> },
}

impl Call {
    pub fn kind(&self) -> &'static str {
        match self {
            Call::SetTree { .. } => "set_tree",
            Call::SetLeaf { .. } => "set_leaf",
            Call::DeleteLeaf { .. } => "delete_leaf",
            Call::SetNextLeaf { .. } => "set_next_leaf",
            Call::SetLeavesFrom { .. } => "set_leaves_from",
            Call::InitTree { .. } => "init_tree_with_leaves",
            Call::Atomic { .. } => "atomic_operation",
            Call::SeqAtomic { .. } => "seq_atomic_operation",
            Call::GetLeaf { .. } => "get_leaf",
            Call::GetRoot => "get_root",
            Call::GetProof { .. } => "get_proof",
            Call::LeavesSet => "leaves_set",
            Call::SetMeta { .. } => "set_metadata",
            Call::GetMeta => "get_metadata",
            Call::Flush => "flush",
            Call::Hash { .. } => "hash",
            Call::PoseidonHash { .. } => "poseidon_hash",
            Call::KeyGen => "key_gen",
            Call::ExtKeyGen => "extended_key_gen",
            Call::SeededKeyGen { .. } => "seeded_key_gen",
            Call::SeededExtKeyGen { .. } => "seeded_extended_key_gen",
            Call::GenProof { .. } => "generate_rln_proof",
            Call::GenWithWitness { .. } => "generate_rln_proof_with_witness",
            Call::Prove { .. } => "prove",
            Call::Verify { .. } => "verify",
            Call::VerifyRln { .. } => "verify_rln_proof",
            Call::VerifyRoots { .. } => "verify_with_roots",
            Call::Recover { .. } => "recover_id_secret",
            Call::VerifyBytes { .. } => "verify_bytes",
            Call::RecoverBytes { .. } => "recover_bytes",
        }
    }
    pub fn mutates(&self) -> bool {
        matches!(self, Call::SetTree { .. } | Call::SetLeaf { .. } | Call::DeleteLeaf { .. } | Call::SetNextLeaf { .. }
            | Call::SetLeavesFrom { .. } | Call::InitTree { .. } | Call::Atomic { .. } | Call::SeqAtomic { .. } | Call::SetMeta { .. } | Call::Flush)
    }
    pub fn to_json(&self) -> Value {
        let k = self.kind();
        match self {
            Call::SetTree { depth } => json!({"c":k,"depth":*depth as u64}),
            Call::SetLeaf { i, bytes } => json!({"c":k,"i":i.to_string(),"bytes":hex(bytes)}),
            Call::DeleteLeaf { i } => json!({"c":k,"i":i.to_string()}),
            Call::SetNextLeaf { bytes } => json!({"c":k,"bytes":hex(bytes)}),
            Call::SetLeavesFrom { i, bytes } => json!({"c":k,"i":i.to_string(),"bytes":hex(bytes)}),
            Call::InitTree { bytes } => json!({"c":k,"bytes":hex(bytes)}),
            Call::Atomic { i, leaves, indices } => json!({"c":k,"i":i.to_string(),"leaves":hex(leaves),"indices":hex(indices)}),
            Call::SeqAtomic { leaves, indices } => json!({"c":k,"leaves":hex(leaves),"indices":hex(indices)}),
            Call::GetLeaf { i } => json!({"c":k,"i":i.to_string()}),
            Call::GetProof { i } => json!({"c":k,"i":i.to_string()}),
            Call::GetRoot | Call::LeavesSet | Call::GetMeta | Call::Flush | Call::KeyGen | Call::ExtKeyGen => json!({"c":k}),
            Call::SetMeta { bytes } | Call::Hash { bytes } | Call::PoseidonHash { bytes } => json!({"c":k,"bytes":hex(bytes)}),
            Call::SeededKeyGen { seed } | Call::SeededExtKeyGen { seed } => json!({"c":k,"seed":hex(seed)}),
            Call::GenProof { slot, request, signal } | Call::GenWithWitness { slot, request, signal } => json!({"c":k,"slot":*slot as u64,"request":hex(request),"signal":hex(signal)}),
            Call::Prove { witness } => json!({"c":k,"witness":hex(witness)}),
            Call::Verify { slot, cut } => json!({"c":k,"slot":*slot as u64,"cut":*cut}),
            Call::VerifyRln { slot, flip, cut } => json!({"c":k,"slot":*slot as u64,"flip":*flip,"cut":*cut}),
            Call::VerifyRoots { slot, roots_mode, cut } => json!({"c":k,"slot":*slot as u64,"roots_mode":*roots_mode,"cut":*cut}),
            Call::Recover { a, b } => json!({"c":k,"a":*a as u64,"b":*b as u64}),
            Call::VerifyBytes { via, bytes, roots } => json!({"c":k,"via":*via,"bytes":hex(bytes),"roots":hex(roots)}),
            Call::RecoverBytes { a, b } => json!({"c":k,"a":hex(a),"b":hex(b)}),
        }
    }
    pub fn from_json(v: &Value) -> Option<Call> {
        let us = |k: &str| v[k].as_str().and_then(|s| s.parse::<usize>().ok()).or(v[k].as_u64().map(|x| x as usize)).unwrap_or(0);
        let hb = |k: &str| unhex(v[k].as_str().unwrap_or(""));
        Some(match v["c"].as_str()? {
            "set_tree" => Call::SetTree { depth: us("depth") },
            "set_leaf" => Call::SetLeaf { i: us("i"), bytes: hb("bytes") },
            "delete_leaf" => Call::DeleteLeaf { i: us("i") },
            "set_next_leaf" => Call::SetNextLeaf { bytes: hb("bytes") },
            "set_leaves_from" => Call::SetLeavesFrom { i: us("i"), bytes: hb("bytes") },
            "init_tree_with_leaves" => Call::InitTree { bytes: hb("bytes") },
            "atomic_operation" => Call::Atomic { i: us("i"), leaves: hb("leaves"), indices: hb("indices") },
            "seq_atomic_operation" => Call::SeqAtomic { leaves: hb("leaves"), indices: hb("indices") },
            "get_leaf" => Call::GetLeaf { i: us("i") },
            "get_root" => Call::GetRoot,
            "get_proof" => Call::GetProof { i: us("i") },
            "leaves_set" => Call::LeavesSet,
            "set_metadata" => Call::SetMeta { bytes: hb("bytes") },
            "get_metadata" => Call::GetMeta,
            "flush" => Call::Flush,
            "hash" => Call::Hash { bytes: hb("bytes") },
            "poseidon_hash" => Call::PoseidonHash { bytes: hb("bytes") },
            "key_gen" => Call::KeyGen,
            "extended_key_gen" => Call::ExtKeyGen,
            "seeded_key_gen" => Call::SeededKeyGen { seed: hb("seed") },
            "seeded_extended_key_gen" => Call::SeededExtKeyGen { seed: hb("seed") },
            "generate_rln_proof" => Call::GenProof { slot: us("slot"), request: hb("request"), signal: hb("signal") },
            "generate_rln_proof_with_witness" => Call::GenWithWitness { slot: us("slot"), request: hb("request"), signal: hb("signal") },
            "prove" => Call::Prove { witness: hb("witness") },
            "verify" => Call::Verify { slot: us("slot"), cut: v["cut"].as_i64().unwrap_or(-1) },
            "verify_rln_proof" => Call::VerifyRln { slot: us("slot"), flip: v["flip"].as_i64().unwrap_or(-1), cut: v["cut"].as_i64().unwrap_or(-1) },
            "verify_with_roots" => Call::VerifyRoots { slot: us("slot"), roots_mode: v["roots_mode"].as_u64().unwrap_or(0) as u8, cut: v["cut"].as_i64().unwrap_or(-1) },
            "recover_id_secret" => Call::Recover { a: us("a"), b: us("b") },
            "verify_bytes" => Call::VerifyBytes { via: v["via"].as_u64().unwrap_or(0) as u8, bytes: hb("bytes"), roots: hb("roots") },
            "recover_bytes" => Call::RecoverBytes { a: hb("a"), b: hb("b") },
            _ => return None,
        })
    }
}

#[derive(Clone, Debug, PartialEq)]
pub struct Step {
    pub call: Call,
    /// storage fault armed identically on both sides before the call: fail the k-th write
    pub storage_fail_at: u64,
}

#[derive(Clone, Debug, PartialEq)]
pub struct Trace {
    pub seed: u64,
    pub depth: usize,
    /// 0: new(tree_height, config); 1: new_with_params(tree_height, zkey bytes, graph bytes, config)
    pub ctor: u8,
    pub steps: Vec<Step>,
}

impl Trace {
    pub fn to_json(&self) -> Value {
        json!({"engine":"e3","property":"C11","seed":self.seed,"depth":self.depth as u64,"ctor":self.ctor,
            "steps": self.steps.iter().map(|s| { let mut j = s.call.to_json(); if s.storage_fail_at > 0 { j["storage_fail_at"] = json!(s.storage_fail_at); } j }).collect::<Vec<_>>()})
    }
    pub fn from_json(v: &Value) -> Option<Trace> {
        Some(Trace {
            seed: v["seed"].as_u64().unwrap_or(0),
            depth: v["depth"].as_u64()? as usize,
            ctor: v["ctor"].as_u64().unwrap_or(0) as u8,
            steps: v["steps"].as_array()?.iter().filter_map(|s| Some(Step { call: Call::from_json(s)?, storage_fail_at: s["storage_fail_at"].as_u64().unwrap_or(0) })).collect(),
        })
    }
    pub fn digest(&self) -> u64 {
        fnv_str(&self.to_json().to_string())
    }
}

#[derive(Clone, Debug)]
pub struct Violation {
    pub step: usize,
    pub call: String,
    pub clause: String,
    pub detail: String,
}
impl Violation {
    pub fn class(&self) -> String {
        format!("C11|{}|{}", self.call, self.clause)
    }
    pub fn to_json(&self) -> Value {
        json!({"property":"C11","step":self.step as u64,"call":self.call,"clause":self.clause,"detail":self.detail,"class":self.class()})
    }
}

pub struct RunOutcome {
    pub violation: Option<Violation>,
    pub harness_error: Option<String>,
}

// ------------------------------------------------------------------------------------------------

const SENTINEL_PTR: *const u8 = 0x5a5a_5a5a_5a50 as *const u8;
const SENTINEL_LEN: usize = 0x7777_7777;

fn buf(b: &[u8]) -> Buffer {
    Buffer { ptr: b.as_ptr(), len: b.len() }
}

fn sentinel() -> Buffer {
    Buffer { ptr: SENTINEL_PTR, len: SENTINEL_LEN }
}

fn read_out(b: &Buffer) -> Option<Vec<u8>> {
    if b.ptr == SENTINEL_PTR && b.len == SENTINEL_LEN {
        return None;
    }
    if b.len == 0 {
        return Some(Vec::new());
    }
    if b.ptr.is_null() || b.len > (1 << 26) {
        return Some(vec![0xEE; 3]); // marks an implausible buffer; compared unequal below
    }
    Some(unsafe { std::slice::from_raw_parts(b.ptr, b.len) }.to_vec())
}

/// Result of one side of a call.
#[derive(Debug, Clone, PartialEq)]
struct SideResult {
    ok: bool,
    out: Option<Vec<u8>>,
    verdict: Option<bool>,
    count: Option<usize>,
    /// (address, length) of the output buffer the FFI handed out (FFI side only)
    raw: Option<(usize, usize)>,
}

pub struct Ctx {
    pub counters: Counters,
    pub log: Fnv,
}

struct Sides {
    rust: RLN,
    ffi: *mut RLN,
    msgs_rust: Vec<Option<(Vec<u8>, Vec<u8>)>>, // (message, signal)
    msgs_ffi: Vec<Option<(Vec<u8>, Vec<u8>)>>,
}

fn cfg_json() -> Vec<u8> {
    b"{}".to_vec()
}

fn cut_bytes(mut b: Vec<u8>, cut: i64) -> Vec<u8> {
    if cut >= 0 && (cut as usize) < b.len() {
        b.truncate(cut as usize);
    }
    b
}

fn rust_call(s: &mut Sides, call: &Call) -> SideResult {
    let mut out: Vec<u8> = Vec::new();
    let mut verdict = None;
    let mut count = None;
    let r: Result<(), String> = (|| -> color_eyre::Result<()> {
        match call {
            Call::SetTree { depth } => s.rust.set_tree(*depth),
            Call::SetLeaf { i, bytes } => s.rust.set_leaf(*i, Cursor::new(bytes.clone())),
            Call::DeleteLeaf { i } => s.rust.delete_leaf(*i),
            Call::SetNextLeaf { bytes } => s.rust.set_next_leaf(Cursor::new(bytes.clone())),
            Call::SetLeavesFrom { i, bytes } => s.rust.set_leaves_from(*i, Cursor::new(bytes.clone())),
            Call::InitTree { bytes } => s.rust.init_tree_with_leaves(Cursor::new(bytes.clone())),
            Call::Atomic { i, leaves, indices } => s.rust.atomic_operation(*i, Cursor::new(leaves.clone()), Cursor::new(indices.clone())),
            Call::SeqAtomic { leaves, indices } => {
                // documented meaning: a batch that starts at the current leaf count
                let at = s.rust.leaves_set();
                s.rust.atomic_operation(at, Cursor::new(leaves.clone()), Cursor::new(indices.clone()))
            }
            Call::GetLeaf { i } => s.rust.get_leaf(*i, &mut out),
            Call::GetRoot => s.rust.get_root(&mut out),
            Call::GetProof { i } => s.rust.get_proof(*i, &mut out),
            Call::LeavesSet => {
                count = Some(s.rust.leaves_set());
                Ok(())
            }
            Call::SetMeta { bytes } => s.rust.set_metadata(bytes),
            Call::GetMeta => s.rust.get_metadata(&mut out),
            Call::Flush => s.rust.flush(),
            Call::Hash { bytes } => rln::public::hash(Cursor::new(bytes.clone()), &mut out),
            Call::PoseidonHash { bytes } => rln::public::poseidon_hash(Cursor::new(bytes.clone()), &mut out),
            Call::KeyGen => s.rust.key_gen(&mut out),
            Call::ExtKeyGen => s.rust.extended_key_gen(&mut out),
            Call::SeededKeyGen { seed } => s.rust.seeded_key_gen(Cursor::new(seed.clone()), &mut out),
            Call::SeededExtKeyGen { seed } => s.rust.seeded_extended_key_gen(Cursor::new(seed.clone()), &mut out),
            Call::GenProof { slot, request, signal } => {
                let r = s.rust.generate_rln_proof(Cursor::new(request.clone()), &mut out);
                while s.msgs_rust.len() <= *slot {
                    s.msgs_rust.push(None);
                }
                if r.is_ok() {
                    s.msgs_rust[*slot] = Some((out.clone(), signal.clone()));
                }
                r
            }
            Call::GenWithWitness { slot, request, signal } => {
                let w = s.rust.get_serialized_rln_witness(Cursor::new(request.clone()))?;
                let r = s.rust.generate_rln_proof_with_witness(Cursor::new(w), &mut out);
                while s.msgs_rust.len() <= *slot {
                    s.msgs_rust.push(None);
                }
                if r.is_ok() {
                    s.msgs_rust[*slot] = Some((out.clone(), signal.clone()));
                }
                r
            }
            Call::Prove { witness } => s.rust.prove(Cursor::new(witness.clone()), &mut out),
            Call::Verify { slot, cut } => {
                let m = s.msgs_rust.get(*slot).cloned().flatten().map(|x| x.0).unwrap_or_default();
                verdict = Some(s.rust.verify(Cursor::new(cut_bytes(m, *cut)))?);
                Ok(())
            }
            Call::VerifyRln { slot, flip, cut } => {
                let (m, sig) = s.msgs_rust.get(*slot).cloned().flatten().unwrap_or_default();
                verdict = Some(s.rust.verify_rln_proof(Cursor::new(verify_input(&m, &sig, *flip, *cut)))?);
                Ok(())
            }
            Call::VerifyRoots { slot, roots_mode, cut } => {
                let (m, sig) = s.msgs_rust.get(*slot).cloned().flatten().unwrap_or_default();
                let roots = roots_for(&m, *roots_mode);
                verdict = Some(s.rust.verify_with_roots(Cursor::new(verify_input(&m, &sig, -1, *cut)), Cursor::new(roots))?);
                Ok(())
            }
            Call::Recover { a, b } => {
                let ma = s.msgs_rust.get(*a).cloned().flatten().map(|x| x.0).unwrap_or_default();
                let mb = s.msgs_rust.get(*b).cloned().flatten().map(|x| x.0).unwrap_or_default();
                s.rust.recover_id_secret(Cursor::new(ma), Cursor::new(mb), &mut out)
            }
            Call::VerifyBytes { via, bytes, roots } => {
                verdict = Some(match via {
                    0 => s.rust.verify(Cursor::new(bytes.clone()))?,
                    1 => s.rust.verify_rln_proof(Cursor::new(bytes.clone()))?,
                    _ => s.rust.verify_with_roots(Cursor::new(bytes.clone()), Cursor::new(roots.clone()))?,
                });
                Ok(())
            }
            Call::RecoverBytes { a, b } => s.rust.recover_id_secret(Cursor::new(a.clone()), Cursor::new(b.clone()), &mut out),
        }
    })()
    .map_err(|e| e.to_string());
    let has_out = !matches!(call, Call::SetTree { .. } | Call::SetLeaf { .. } | Call::DeleteLeaf { .. } | Call::SetNextLeaf { .. } | Call::SetLeavesFrom { .. }
        | Call::InitTree { .. } | Call::Atomic { .. } | Call::SeqAtomic { .. } | Call::SetMeta { .. } | Call::Flush | Call::LeavesSet
        | Call::Verify { .. } | Call::VerifyRln { .. } | Call::VerifyRoots { .. } | Call::VerifyBytes { .. });
    SideResult { ok: r.is_ok(), out: if has_out && r.is_ok() { Some(out) } else { None }, verdict: if r.is_ok() { verdict } else { None }, count, raw: None }
}

fn verify_input(m: &[u8], sig: &[u8], flip: i64, cut: i64) -> Vec<u8> {
    let mut b = enc_verify_input(m, sig);
    if flip >= 0 && !b.is_empty() {
        let k = (flip as usize) % (b.len() * 8);
        b[k / 8] ^= 1 << (k % 8);
    }
    cut_bytes(b, cut)
}

fn roots_for(m: &[u8], mode: u8) -> Vec<u8> {
    let root = if m.len() >= 160 { m[128..160].to_vec() } else { vec![0; 32] };
    match mode % 4 {
        0 => root,
        1 => Vec::new(),
        2 => vec![7u8; 64],
        _ => {
            let mut v = vec![9u8; 32];
            v.extend_from_slice(&root);
            v
        }
    }
}

fn ffi_call(s: &mut Sides, call: &Call) -> SideResult {
    let ctx = s.ffi;
    let mut ob = sentinel();
    let mut verdict_cell: bool = false;
    let mut verdict_touched = false;
    let mut count = None;
    let mut has_out = true;
    let ok = match call {
        Call::SetTree { depth } => { has_out = false; ffi::set_tree(ctx, *depth) }
        Call::SetLeaf { i, bytes } => { has_out = false; ffi::set_leaf(ctx, *i, &buf(bytes)) }
        Call::DeleteLeaf { i } => { has_out = false; ffi::delete_leaf(ctx, *i) }
        Call::SetNextLeaf { bytes } => { has_out = false; ffi::set_next_leaf(ctx, &buf(bytes)) }
        Call::SetLeavesFrom { i, bytes } => { has_out = false; ffi::set_leaves_from(ctx, *i, &buf(bytes)) }
        Call::InitTree { bytes } => { has_out = false; ffi::init_tree_with_leaves(ctx, &buf(bytes)) }
        Call::Atomic { i, leaves, indices } => { has_out = false; ffi::atomic_operation(ctx, *i, &buf(leaves), &buf(indices)) }
        Call::SeqAtomic { leaves, indices } => { has_out = false; ffi::seq_atomic_operation(ctx, &buf(leaves), &buf(indices)) }
        Call::GetLeaf { i } => ffi::get_leaf(ctx, *i, &mut ob),
        Call::GetRoot => ffi::get_root(ctx, &mut ob),
        Call::GetProof { i } => ffi::get_proof(ctx, *i, &mut ob),
        Call::LeavesSet => { has_out = false; count = Some(ffi::leaves_set(ctx)); true }
        Call::SetMeta { bytes } => { has_out = false; ffi::set_metadata(ctx, &buf(bytes)) }
        Call::GetMeta => ffi::get_metadata(ctx, &mut ob),
        Call::Flush => { has_out = false; ffi::flush(ctx) }
        Call::Hash { bytes } => ffi::hash(&buf(bytes), &mut ob),
        Call::PoseidonHash { bytes } => ffi::poseidon_hash(&buf(bytes), &mut ob),
        Call::KeyGen => ffi::key_gen(ctx, &mut ob),
        Call::ExtKeyGen => ffi::extended_key_gen(ctx, &mut ob),
        Call::SeededKeyGen { seed } => ffi::seeded_key_gen(ctx, &buf(seed), &mut ob),
        Call::SeededExtKeyGen { seed } => ffi::seeded_extended_key_gen(ctx, &buf(seed), &mut ob),
        Call::GenProof { slot, request, signal } => {
            let ok = ffi::generate_rln_proof(ctx, &buf(request), &mut ob);
            while s.msgs_ffi.len() <= *slot {
                s.msgs_ffi.push(None);
            }
            if ok {
                if let Some(m) = read_out(&ob) {
                    s.msgs_ffi[*slot] = Some((m, signal.clone()));
                }
            }
            ok
        }
        Call::GenWithWitness { slot, request, signal } => {
            // the witness getter has no FFI form: it is taken from the FFI context through the Rust API
            let w = unsafe { &mut *ctx }.get_serialized_rln_witness(Cursor::new(request.clone()));
            match w {
                Err(_) => false,
                Ok(w) => {
                    let ok = ffi::generate_rln_proof_with_witness(ctx, &buf(&w), &mut ob);
                    while s.msgs_ffi.len() <= *slot {
                        s.msgs_ffi.push(None);
                    }
                    if ok {
                        if let Some(m) = read_out(&ob) {
                            s.msgs_ffi[*slot] = Some((m, signal.clone()));
                        }
                    }
                    ok
                }
            }
        }
        Call::Prove { witness } => ffi::prove(ctx, &buf(witness), &mut ob),
        Call::Verify { slot, cut } => {
            has_out = false;
            let m = s.msgs_rust.get(*slot).cloned().flatten().map(|x| x.0).unwrap_or_default();
            let input = cut_bytes(m, *cut);
            let (ok, v, t) = ffi_verdict(|cell| ffi::verify(ctx, &buf(&input), cell));
            verdict_cell = v;
            verdict_touched = t;
            ok
        }
        Call::VerifyRln { slot, flip, cut } => {
            has_out = false;
            let (m, sig) = s.msgs_rust.get(*slot).cloned().flatten().unwrap_or_default();
            let input = verify_input(&m, &sig, *flip, *cut);
            let (ok, v, t) = ffi_verdict(|cell| ffi::verify_rln_proof(ctx, &buf(&input), cell));
            verdict_cell = v;
            verdict_touched = t;
            ok
        }
        Call::VerifyRoots { slot, roots_mode, cut } => {
            has_out = false;
            let (m, sig) = s.msgs_rust.get(*slot).cloned().flatten().unwrap_or_default();
            let input = verify_input(&m, &sig, -1, *cut);
            let roots = roots_for(&m, *roots_mode);
            let (ok, v, t) = ffi_verdict(|cell| ffi::verify_with_roots(ctx, &buf(&input), &buf(&roots), cell));
            verdict_cell = v;
            verdict_touched = t;
            ok
        }
        Call::Recover { a, b } => {
            let ma = s.msgs_rust.get(*a).cloned().flatten().map(|x| x.0).unwrap_or_default();
            let mb = s.msgs_rust.get(*b).cloned().flatten().map(|x| x.0).unwrap_or_default();
            ffi::recover_id_secret(ctx, &buf(&ma), &buf(&mb), &mut ob)
        }
        Call::VerifyBytes { via, bytes, roots } => {
            has_out = false;
            let (ok, v, t) = ffi_verdict(|cell| match via {
                0 => ffi::verify(ctx, &buf(bytes), cell),
                1 => ffi::verify_rln_proof(ctx, &buf(bytes), cell),
                _ => ffi::verify_with_roots(ctx, &buf(bytes), &buf(roots), cell),
            });
            verdict_cell = v;
            verdict_touched = t;
            ok
        }
        Call::RecoverBytes { a, b } => ffi::recover_id_secret(ctx, &buf(a), &buf(b), &mut ob),
    };
    let out = if has_out { read_out(&ob) } else { None };
    let raw = if has_out && out.is_some() && !ob.ptr.is_null() && ob.len > 0 && ob.len <= (1 << 26) { Some((ob.ptr as usize, ob.len)) } else { None };
    SideResult { ok, out, verdict: if verdict_touched { Some(verdict_cell) } else { None }, count, raw }
}

/// Runs an FFI verification twice with the verdict cell preset to false and to true: the cell is
/// "touched" if either run overwrote its preset.
fn ffi_verdict(f: impl Fn(*mut bool) -> bool) -> (bool, bool, bool) {
    let mut c1: bool = false;
    let ok1 = f(&mut c1);
    let mut c2: bool = true;
    let ok2 = f(&mut c2);
    if ok1 != ok2 {
        return (ok1, c1, true);
    }
    if c1 == c2 {
        // both presets ended equal: the call wrote the cell
        (ok1, c1, true)
    } else {
        // each kept its preset: untouched
        (ok1, false, false)
    }
}

/// Which outputs are random by design and can only be compared structurally.
fn random_output(call: &Call) -> bool {
    matches!(call, Call::KeyGen | Call::ExtKeyGen | Call::GenProof { .. } | Call::GenWithWitness { .. } | Call::Prove { .. })
}

fn structural_equal(call: &Call, a: &[u8], b: &[u8]) -> Result<(), String> {
    if a.len() != b.len() {
        return Err(format!("output lengths differ: rust {} ffi {}", a.len(), b.len()));
    }
    match call {
        Call::GenProof { .. } | Call::GenWithWitness { .. } => {
            if a.len() != 288 {
                return Err(format!("message length {}", a.len()));
            }
            if a[128..] != b[128..] {
                return Err("public values differ between the two surfaces".into());
            }
            Ok(())
        }
        Call::KeyGen => key_relations(b, 2),
        Call::ExtKeyGen => key_relations(b, 4),
        _ => Ok(()),
    }
}

fn key_relations(b: &[u8], n: usize) -> Result<(), String> {
    if b.len() != 32 * n {
        return Err(format!("identity length {}", b.len()));
    }
    let f = |k: usize| fr_from_le(&b[32 * k..32 * k + 32]);
    if n == 2 {
        if h(&[f(0)]) != f(1) {
            return Err("commitment != H(secret)".into());
        }
    } else {
        if h(&[f(0), f(1)]) != f(2) || h(&[f(2)]) != f(3) {
            return Err("extended identity relations violated".into());
        }
    }
    Ok(())
}

fn state_of(r: &mut RLN, depth: usize, full: bool) -> Result<Vec<u8>, String> {
    let mut out = Vec::new();
    r.get_root(&mut out).map_err(|e| e.to_string())?;
    out.extend_from_slice(&(r.leaves_set() as u64).to_le_bytes());
    let mut md = Vec::new();
    r.get_metadata(&mut md).map_err(|e| e.to_string())?;
    out.extend_from_slice(&md);
    if full && depth <= 6 {
        for i in 0..(1usize << depth) {
            r.get_leaf(i, &mut out).map_err(|e| e.to_string())?;
        }
        r.get_empty_leaves_indices(&mut out).map_err(|e| e.to_string())?;
    }
    Ok(out)
}

fn ctor_probe(seed: u64, zkey: &[u8], graph: &[u8], ctx: &mut Ctx) -> Option<Violation> {
    let mut rng = Prng::new(seed ^ 0xc7012);
    let depth = *rng.pick(&[1usize, 2, 3, 5]);
    let cfgs: [&[u8]; 8] = [
        b"{}",
        b"",
        b"{",
        b"not json",
        b"{\"tree_config\": 7}",
        b"{\"tree_config\": {\"use_compression\": true}}",
        b"{\"tree_config\": {\"cache_capacity\": \"big\"}}",
        b"{\"tree_config\": {\"mode\": \"NoSuchMode\"}}",
    ];
    let which = rng.below(3);
    let cfg: Vec<u8> = rng.pick(&cfgs).to_vec();
    // new_with_params takes the inner tree configuration
    let inner: [&[u8]; 5] = [b"", b"{", b"{\"use_compression\": true}", b"{\"cache_capacity\": \"big\"}", b"{\"temporary\": true}"];
    let inner_cfg: Vec<u8> = rng.pick(&inner).to_vec();
    let (zk, gr): (Vec<u8>, Vec<u8>) = match rng.below(5) {
        0 => (zkey[..zkey.len().min(1000)].to_vec(), graph.to_vec()),
        1 => (zkey.to_vec(), graph[..graph.len() / 2].to_vec()),
        2 => (Vec::new(), graph.to_vec()),
        3 => (zkey.to_vec(), Vec::new()),
        _ => (zkey.to_vec(), graph.to_vec()),
    };
    let rust_ok = if which == 0 {
        match guarded(|| RLN::new_with_params(depth, zk.clone(), gr.clone(), Cursor::new(inner_cfg.clone())).map(|_| ())) {
            Ok(r) => r.is_ok(),
            Err(_) => {
                ctx.counters.inc("ctor_probe_rust_panicked");
                return None;
            }
        }
    } else {
        match guarded(|| RLN::new(depth, Cursor::new(cfg.clone())).map(|_| ())) {
            Ok(r) => r.is_ok(),
            Err(_) => {
                ctx.counters.inc("ctor_probe_rust_panicked");
                return None;
            }
        }
    };
    let mut p: *mut RLN = std::ptr::null_mut();
    let ffi_ok = if which == 0 {
        ffi::new_with_params(depth, &buf(&zk), &buf(&gr), &buf(&inner_cfg), &mut p)
    } else {
        ffi::new(depth, &buf(&cfg), &mut p)
    };
    ctx.counters.inc(if rust_ok { "ctor_probe_ok" } else { "ctor_probe_err" });
    ctx.log.add(&[0xc7, rust_ok as u8, ffi_ok as u8, p.is_null() as u8]);
    let mut v = None;
    if ffi_ok != rust_ok {
        v = Some(Violation { step: 0, call: "new".into(), clause: "flag".into(), detail: format!("constructor probe (which={which}): the FFI reports {ffi_ok}, the Rust API Ok={rust_ok}") });
    } else if ffi_ok && p.is_null() {
        v = Some(Violation { step: 0, call: "new".into(), clause: "ctx".into(), detail: "the FFI constructor reports success and stored no context".into() });
    } else if !ffi_ok && !p.is_null() {
        v = Some(Violation { step: 0, call: "new".into(), clause: "ctx".into(), detail: "the FFI constructor reports failure and stored a context".into() });
        p = std::ptr::null_mut(); // do not free something we know nothing about
    }
    if !p.is_null() {
        unsafe { drop(Box::from_raw(p)) };
    }
    v
}

pub fn run_trace(trace: &Trace, ctx: &mut Ctx) -> RunOutcome {
    let zkey: &[u8] = rln::circuit::ZKEY_BYTES;
    #[cfg(feature = "arkzkey")]
    let zkey: &[u8] = rln::circuit::ARKZKEY_BYTES;
    let graph: &[u8] = rln::circuit::graph_from_folder();
    // new_with_params takes the tree configuration itself (not wrapped in {"tree_config": ..}); empty = default
    let rust_r = if trace.ctor == 1 {
        guarded(|| RLN::new_with_params(trace.depth, zkey.to_vec(), graph.to_vec(), Cursor::new(Vec::<u8>::new())))
    } else {
        guarded(|| RLN::new(trace.depth, Cursor::new(cfg_json())))
    };
    let rust = match rust_r {
        Ok(Ok(r)) => r,
        other => return RunOutcome { violation: None, harness_error: Some(format!("RLN::new: {:?}", other.map(|x| x.map(|_| ()).map_err(|e| e.to_string())))) },
    };
    let mut ffi_ctx: *mut RLN = std::ptr::null_mut();
    let cfg = cfg_json();
    let empty: Vec<u8> = Vec::new();
    let ok = if trace.ctor == 1 {
        ffi::new_with_params(trace.depth, &buf(zkey), &buf(graph), &buf(&empty), &mut ffi_ctx)
    } else {
        ffi::new(trace.depth, &buf(&cfg), &mut ffi_ctx)
    };
    if !ok || ffi_ctx.is_null() {
        return RunOutcome { violation: Some(Violation { step: 0, call: "new".into(), clause: "flag".into(), detail: "the FFI constructor failed where the Rust constructor succeeded".into() }), harness_error: None };
    }
    // constructor probe: one seeded constructor request that may fail (broken configuration, broken key or graph bytes);
    // the FFI constructor reports success exactly when the Rust one returns Ok and stores a context only then
    if let Some(v) = ctor_probe(trace.seed, zkey, graph, ctx) {
        unsafe { drop(Box::from_raw(ffi_ctx)) };
        return RunOutcome { violation: Some(v), harness_error: None };
    }
    let mut s = Sides { rust, ffi: ffi_ctx, msgs_rust: Vec::new(), msgs_ffi: Vec::new() };
    let mut depth = trace.depth;
    let mut result = RunOutcome { violation: None, harness_error: None };
    macro_rules! fail {
        ($si:expr, $call:expr, $clause:expr, $detail:expr) => {{
            result.violation = Some(Violation { step: $si, call: $call.kind().to_string(), clause: $clause.to_string(), detail: $detail });
            break;
        }};
    }
    let mut retained: Vec<(usize, usize, Vec<u8>, usize, &'static str)> = Vec::new();
    for (si, step) in trace.steps.iter().enumerate() {
        let call = &step.call;
        ctx.counters.inc(&format!("call.{}", call.kind()));
        ctx.log.add_u64(si as u64);
        // state of the FFI context before the call (for "a failed call leaves it unchanged")
        let ffi_before = match guarded(|| state_of(unsafe { &mut *s.ffi }, depth, false)) {
            Ok(Ok(x)) => x,
            other => {
                result.harness_error = Some(format!("state read failed before step {si}: {:?}", other));
                break;
            }
        };
        let arm = |k: u64| {
            if k > 0 {
                zerokit_utils::verif::arm(&[k], None, None);
            }
        };
        let disarm = |k: u64| -> u64 {
            if k > 0 {
                zerokit_utils::verif::disarm().1
            } else {
                0
            }
        };
        // the property quantifies over calls for which the Rust API returns
        arm(step.storage_fail_at);
        let rr = guarded(|| rust_call(&mut s, call));
        let fired_r = disarm(step.storage_fail_at);
        let rr = match rr {
            Ok(r) => r,
            Err(p) => {
                ctx.counters.inc("rust_side_panicked_run_ends");
                let short: String = p.chars().take(60).collect();
                ctx.counters.inc(&format!("rust_panic.{}.{}", call.kind(), short));
                break;
            }
        };
        arm(step.storage_fail_at);
        let fr = guarded(|| ffi_call(&mut s, call));
        let fired_f = disarm(step.storage_fail_at);
        if fired_r > 0 {
            ctx.counters.inc("fault.storage_write_failed");
        }
        let fr = match fr {
            Ok(r) => r,
            Err(p) => fail!(si, call, "ffi_panic", format!("the FFI call panicked where the Rust API returned: {p}")),
        };
        if fired_r != fired_f {
            result.harness_error = Some(format!("storage fault fired {fired_r} times on the Rust side and {fired_f} on the FFI side at step {si}"));
            break;
        }
        // inputs derived from random proof bytes (bit flips inside the proof) may fail to decode or decode and
        // fail verification: the flag of such calls is not logged, only compared
        let proof_dependent = matches!(call, Call::VerifyRln { flip, .. } if *flip >= 0) || matches!(call, Call::Prove { .. });
        if !proof_dependent {
            ctx.log.add(&[rr.ok as u8, fr.ok as u8]);
        }
        // a buffer handed out by an earlier call keeps designating the bytes of that call (the FFI gives each output its own
        // allocation, which the caller owns from then on): re-read every retained buffer after every later call
        if let (true, Some((addr, len)), Some(bytes)) = (fr.ok, fr.raw, fr.out.as_ref()) {
            if retained.len() >= 48 {
                retained.remove(0);
            }
            retained.push((addr, len, bytes.clone(), si, call.kind()));
        }
        {
            let mut stale: Option<String> = None;
            for (addr, len, bytes, at, kind) in retained.iter() {
                let now = unsafe { std::slice::from_raw_parts(*addr as *const u8, *len) };
                if now != &bytes[..] {
                    stale = Some(format!("the output buffer returned by {kind} at step {at} ({} bytes at {:#x}) held {} then and holds {} after this call", len, addr, hex(&bytes[..bytes.len().min(24)]), hex(&now[..now.len().min(24)])));
                    break;
                }
            }
            ctx.counters.add("retained_output_buffers_rechecked", retained.len() as u64);
            if let Some(d) = stale {
                fail!(si, call, "earlier_output_changed", d);
            }
        }
        if rr.ok != fr.ok {
            fail!(si, call, "flag", format!("Rust API returned {} but the FFI flag is {}", if rr.ok { "Ok" } else { "Err" }, fr.ok));
        }
        if rr.count != fr.count {
            fail!(si, call, "count", format!("leaves_set: rust {:?} ffi {:?}", rr.count, fr.count));
        }
        if rr.ok {
            match (&rr.out, &fr.out) {
                (Some(a), Some(b)) => {
                    if random_output(call) {
                        if let Err(e) = structural_equal(call, a, b) {
                            fail!(si, call, "output", e);
                        }
                    } else if a != b {
                        fail!(si, call, "output", format!("output bytes differ: rust {} ffi {}", hex(&a[..a.len().min(48)]), hex(&b[..b.len().min(48)])));
                    }
                }
                (Some(_), None) => fail!(si, call, "output", "the FFI call reported success but left the output buffer untouched".to_string()),
                (None, Some(_)) => fail!(si, call, "output", "unexpected output".to_string()),
                (None, None) => {}
            }
            if rr.verdict != fr.verdict {
                fail!(si, call, "verdict", format!("rust {:?} ffi {:?}", rr.verdict, fr.verdict));
            }
        } else {
            // failed call: context unchanged and usable. What a failed call leaves in the output buffer or the verdict cell is
            // not part of the property (it speaks of the bytes / verdict of calls that succeed), so it is only counted.
            if fr.out.is_some() {
                ctx.counters.inc("info.failed_ffi_call_wrote_output_buffer");
            }
            if fr.verdict.is_some() {
                ctx.counters.inc("info.failed_ffi_call_wrote_verdict_cell");
            }
            if step.storage_fail_at == 0 || fired_r == 0 {
                match guarded(|| state_of(unsafe { &mut *s.ffi }, depth, false)) {
                    Ok(Ok(after)) => {
                        // init_tree_with_leaves is documented as reset + write: a failure of the write leaves the reset
                        if after != ffi_before && !matches!(call, Call::InitTree { .. }) {
                            // the Rust side must then show the same change (equivalence is the claim)
                            let rust_now = state_of(&mut s.rust, depth, false).unwrap_or_default();
                            if rust_now != after {
                                fail!(si, call, "changed_by_failed_call", "a failed FFI call changed the context differently from the Rust API".to_string());
                            }
                        }
                    }
                    other => fail!(si, call, "unusable_after_failure", format!("{:?}", other)),
                }
            }
        }
        if let Call::SetTree { depth: d } = call {
            if rr.ok {
                depth = *d;
            }
        }
        ctx.counters.inc("oracle_evaluations");
        // tree state evolves identically
        if call.mutates() || si % 5 == 4 {
            let full = si % 4 == 3 || si + 1 == trace.steps.len();
            let a = guarded(|| state_of(&mut s.rust, depth, full));
            let b = guarded(|| state_of(unsafe { &mut *s.ffi }, depth, full));
            match (a, b) {
                (Ok(Ok(a)), Ok(Ok(b))) => {
                    if a != b {
                        fail!(si, call, "state", "root / leaf count / metadata / leaves differ between the two contexts".to_string());
                    }
                    ctx.log.add(&a[..a.len().min(40)]);
                }
                (a, b) => {
                    result.harness_error = Some(format!("state read failed after step {si}: {:?} {:?}", a.map(|x| x.map(|_| ())), b.map(|x| x.map(|_| ()))));
                    break;
                }
            }
        }
    }
    // free the FFI context
    unsafe { drop(Box::from_raw(s.ffi)) };
    result
}

// ------------------------------------------------------------------------------------------------

fn gen_leaf_bytes(rng: &mut Prng) -> Vec<u8> {
    match rng.weighted(&[8, 1, 1, 1]) {
        0 => fr_to_le32(&fr_from_le(&rng.bytes(32))).to_vec(),
        1 => vec![0u8; 32],
        2 => vec![0xff; 32],          // >= p: reduced by the decoder on both sides
        _ => rng.bytes(40),           // over-long: only the first 32 bytes are read
    }
}

pub fn generate(seed: u64, thorough: bool) -> Trace {
    let mut rng = Prng::new(seed);
    let proving = rng.chance(1, 4);
    let depth = if proving { 20 } else { [1usize, 2, 3, 3, 4, 5, 6][rng.usize_below(7)] };
    let cap = 1usize << depth;
    let n = if proving { 10 + rng.usize_below(10) } else { 8 + rng.usize_below(if thorough { 50 } else { 30 }) };
    let mut steps = Vec::new();
    let mut hwm = 0usize; // rough tracking for argument choice only
    let mut cur_cap = cap;
    let mut members: Vec<(Fr, Fr, usize)> = Vec::new();
    let mut slots = 0usize;
    let pos = |rng: &mut Prng, hwm: usize| -> usize {
        let c = [0, 1, cap / 2, cap - 1, cap, cap + 1, hwm, hwm.saturating_sub(1)];
        if rng.chance(1, 3) { *rng.pick(&c) } else { rng.usize_below(cap.min(300)) }
    };
    let frs = |rng: &mut Prng, k: usize| -> Vec<Fr> { (0..k).map(|_| fr_from_le(&rng.bytes(32))).collect() };
    for _ in 0..n {
        let mut storage_fail_at = 0;
        let call = if proving {
            match rng.weighted(&[3, 3, 2, 2, 2, 2, 2, 1, 1, 2, 1, 1]) {
                0 => {
                    // register a member
                    let secret = fr_from_le(&rng.bytes(32));
                    let limit = Fr::from(*rng.pick(&[1u64, 2, 100, 65535, 65536]));
                    let index = *rng.pick(&[0usize, 1, cap / 2 - 1, cap / 2, cap - 1, 77, 4000]);
                    members.push((secret, limit, index));
                    Call::SetLeaf { i: index, bytes: fr_to_le32(&rate_commitment(&secret, &limit)).to_vec() }
                }
                1 | 2 if !members.is_empty() => {
                    let (secret, limit, index) = *rng.pick(&members);
                    let lim = u64::from_le_bytes(fr_to_le32(&limit)[..8].try_into().unwrap());
                    let id = match rng.below(4) { 0 => 0, 1 => lim - 1, 2 => lim, _ => rng.below(lim) };
                    let signal = { let k = rng.usize_below(40); rng.bytes(k) };
                    let mut request = enc_request(&secret, index as u64, &limit, &Fr::from(id), &Fr::from(rng.below(3)), &signal);
                    if rng.chance(1, 8) {
                        let k = rng.usize_below(request.len());
                        request.truncate(k);
                    }
                    slots += 1;
                    if rng.chance(1, 2) { Call::GenProof { slot: slots - 1, request, signal } } else { Call::GenWithWitness { slot: slots - 1, request, signal } }
                }
                3 if slots > 0 => Call::VerifyRln { slot: rng.usize_below(slots), flip: if rng.chance(1, 3) { rng.below(4000) as i64 } else { -1 }, cut: if rng.chance(1, 6) { rng.below(300) as i64 } else { -1 } },
                4 if slots > 0 => Call::VerifyRoots { slot: rng.usize_below(slots), roots_mode: rng.below(4) as u8, cut: if rng.chance(1, 8) { rng.below(300) as i64 } else { -1 } },
                5 if slots > 0 => Call::Verify { slot: rng.usize_below(slots), cut: if rng.chance(1, 6) { rng.below(290) as i64 } else { -1 } },
                6 if slots > 0 => Call::Recover { a: rng.usize_below(slots), b: rng.usize_below(slots) },
                7 => Call::DeleteLeaf { i: if members.is_empty() { 5 } else { rng.pick(&members).2 } },
                8 => Call::SetLeaf { i: rng.usize_below(5000), bytes: gen_leaf_bytes(&mut rng) },
                9 => {
                    let k = *rng.pick(&[0usize, 31, 128, 288, 296, 320]);
                    let kr = *rng.pick(&[0usize, 31, 32, 64]);
                    Call::VerifyBytes { via: rng.below(3) as u8, bytes: rng.bytes(k), roots: rng.bytes(kr) }
                }
                10 => {
                    // a raw witness: mostly malformed
                    let k = *rng.pick(&[0usize, 96, 200, 793]);
                    Call::Prove { witness: rng.bytes(k) }
                }
                _ => Call::GetProof { i: *rng.pick(&[0usize, cap - 1, 77]) },
            }
        } else {
            match rng.weighted(&[8, 4, 4, 4, 2, 3, 3, 1, 4, 3, 3, 2, 2, 2, 1, 2, 2, 1, 1, 2, 2, 1, 1]) {
                0 => { let i = pos(&mut rng, hwm); if i < cap { hwm = hwm.max(i + 1); } Call::SetLeaf { i, bytes: gen_leaf_bytes(&mut rng) } }
                1 => Call::DeleteLeaf { i: pos(&mut rng, hwm) },
                2 => { hwm = (hwm + 1).min(cap); Call::SetNextLeaf { bytes: gen_leaf_bytes(&mut rng) } }
                3 => {
                    let i = pos(&mut rng, hwm);
                    let k = rng.usize_below(6);
                    let mut bytes = enc_vec_fr(&frs(&mut rng, k));
                    if rng.chance(1, 10) { let t = rng.usize_below(bytes.len() + 1); bytes.truncate(t); }
                    if i + k <= cap { hwm = hwm.max(i + k); }
                    Call::SetLeavesFrom { i, bytes }
                }
                4 => { let k = rng.usize_below(cap.min(8) + 2); hwm = k.min(cap); Call::InitTree { bytes: enc_vec_fr(&frs(&mut rng, k)) } }
                5 | 6 => {
                    let k = rng.usize_below(5);
                    let i = pos(&mut rng, hwm);
                    // removal indices: never strictly above `start` when leaves are given (that arm of the
                    // persistent tree panics on both surfaces, which would only end the run)
                    let nrem = rng.usize_below(4);
                    let mut rem: Vec<u8> = (0..nrem).map(|_| rng.below((cap.min(255) + 1) as u64) as u8).collect();
                    if k > 0 && !rem.is_empty() {
                        rem.push(i.min(255) as u8);
                        let lo = i.min(255) as u8;
                        for r in rem.iter_mut() { if *r > lo { *r = lo; } }
                    }
                    let mut indices = enc_vec_u8(&rem);
                    if rng.chance(1, 12) { let t = rng.usize_below(indices.len() + 1); indices.truncate(t); }
                    let leaves = enc_vec_fr(&frs(&mut rng, k));
                    if rng.chance(1, 2) {
                        Call::Atomic { i, leaves, indices }
                    } else {
                        // the batch starts at the current leaf count: keep removals at or below it
                        let lo = hwm.min(255) as u8;
                        let mut rem2 = rem.clone();
                        if k > 0 {
                            for r in rem2.iter_mut() { if *r > lo { *r = lo; } }
                            if !rem2.is_empty() && rng.chance(1, 2) { rem2.clear(); }
                        }
                        if k > 0 && hwm + k <= cap { hwm += k; }
                        Call::SeqAtomic { leaves, indices: enc_vec_u8(&rem2) }
                    }
                }
                7 => {
                    hwm = 0;
                    let d = if rng.chance(1, 3) { 1 + rng.usize_below(6) } else { depth };
                    cur_cap = 1usize << d;
                    Call::SetTree { depth: d }
                }
                8 => Call::GetLeaf { i: pos(&mut rng, hwm) },
                9 => Call::GetRoot,
                // (get_proof beyond capacity panics in the Rust API: outside every listed property, and it would only end the run)
                10 => Call::GetProof { i: rng.usize_below(cur_cap) },
                11 => Call::LeavesSet,
                12 => { let k = rng.usize_below(20); Call::SetMeta { bytes: rng.bytes(k) } }
                13 => Call::GetMeta,
                14 => Call::Flush,
                15 => { let k = *rng.pick(&[0usize, 1, 32, 135, 136, 137, 500]); Call::Hash { bytes: rng.bytes(k) } }
                16 => {
                    let k = 1 + rng.usize_below(8);
                    let mut bytes = enc_vec_fr(&frs(&mut rng, k));
                    if rng.chance(1, 6) { let t = rng.usize_below(bytes.len() + 1); bytes.truncate(t); }
                    Call::PoseidonHash { bytes }
                }
                17 => Call::KeyGen,
                18 => Call::ExtKeyGen,
                19 => { let k = rng.usize_below(40); Call::SeededKeyGen { seed: rng.bytes(k) } }
                20 => { let k = rng.usize_below(40); Call::SeededExtKeyGen { seed: rng.bytes(k) } }
                21 => {
                    let k = *rng.pick(&[0usize, 31, 128, 288, 296, 320]);
                    let kr = *rng.pick(&[0usize, 31, 32, 64]);
                    Call::VerifyBytes { via: rng.below(3) as u8, bytes: rng.bytes(k), roots: rng.bytes(kr) }
                }
                _ => { let k = *rng.pick(&[0usize, 127, 288, 300]); Call::RecoverBytes { a: rng.bytes(k), b: rng.bytes(k) } }
            }
        };
        if call.mutates() && rng.chance(1, 10) {
            storage_fail_at = 1 + rng.below(10);
        }
        steps.push(Step { call, storage_fail_at });
    }
    let ctor = (seed % 5 == 0) as u8;
    Trace { seed, depth, ctor, steps }
}

pub fn shrink(trace: &Trace, class: &str, budget: usize) -> (Trace, usize) {
    let mut best = trace.clone();
    let mut used = 0;
    let fails = |t: &Trace, used: &mut usize| -> bool {
        *used += 1;
        let mut c = Ctx { counters: Counters::default(), log: Fnv::new() };
        matches!(run_trace(t, &mut c).violation, Some(v) if v.class() == class)
    };
    {
        let mut c = Ctx { counters: Counters::default(), log: Fnv::new() };
        if let Some(v) = run_trace(&best, &mut c).violation {
            best.steps.truncate(v.step + 1);
        }
    }
    let mut i = 0;
    while i + 1 < best.steps.len() && used < budget {
        let mut t = best.clone();
        t.steps.remove(i);
        if fails(&t, &mut used) {
            best = t;
        } else {
            i += 1;
        }
    }
    let _ = HashSet::<u8>::new();
    (best, used)
}
