//! E4 — heterogeneous builds on one simulated network (C17). The driver (default build) starts one
//! `simworker serve` child per other build configuration and is the only transport between them.

use ark_bn254::Fr;
use serde_json::{json, Value};
use std::io::{BufRead, BufReader, Write};
use std::process::{Child, ChildStdin, ChildStdout, Command, Stdio};

use crate::model::IdealTree;
use crate::prng::Prng;
use crate::proto::*;
use crate::util::*;

pub struct Peer {
    pub name: String,
    child: Option<Child>,
    stdin: Option<ChildStdin>,
    stdout: Option<BufReader<ChildStdout>>,
    local: Option<Option<rln::public::RLN>>,
    pub stateless: bool,
}

impl Peer {
    pub fn local(name: &str) -> Peer {
        Peer { name: name.to_string(), child: None, stdin: None, stdout: None, local: Some(None), stateless: false }
    }
    pub fn spawn(name: &str, bin: &str, scratch: &std::path::Path, rayon: &str) -> Result<Peer, String> {
        let mut child = Command::new(bin)
            .arg("serve")
            .env("TMPDIR", scratch)
            .env("RAYON_NUM_THREADS", rayon)
            .stdin(Stdio::piped())
            .stdout(Stdio::piped())
            .stderr(Stdio::null())
            .spawn()
            .map_err(|e| format!("spawn {bin}: {e}"))?;
        let stdin = child.stdin.take();
        let stdout = child.stdout.take().map(BufReader::new);
        Ok(Peer { name: name.to_string(), child: Some(child), stdin, stdout, local: None, stateless: name == "stateless" })
    }
    pub fn call(&mut self, req: Value) -> Value {
        if let Some(l) = self.local.as_mut() {
            return crate::serve::handle(l, &req);
        }
        let (si, so) = match (self.stdin.as_mut(), self.stdout.as_mut()) {
            (Some(a), Some(b)) => (a, b),
            _ => return json!({"ok": false, "transport": "peer has no pipes"}),
        };
        if writeln!(si, "{}", req).is_err() || si.flush().is_err() {
            return json!({"ok": false, "transport": "peer died (write)"});
        }
        let mut line = String::new();
        match so.read_line(&mut line) {
            Ok(0) | Err(_) => json!({"ok": false, "transport": "peer died (read): aborted or crashed"}),
            Ok(_) => serde_json::from_str(&line).unwrap_or(json!({"ok": false, "transport": "bad response"})),
        }
    }
}

impl Drop for Peer {
    fn drop(&mut self) {
        if let Some(si) = self.stdin.as_mut() {
            let _ = writeln!(si, "{}", json!({"cmd": "quit"}));
        }
        self.stdin = None;
        if let Some(c) = self.child.as_mut() {
            let _ = c.wait();
        }
    }
}

#[derive(Clone, Debug, PartialEq)]
pub enum Ev {
    Set { i: usize, v: Fr },
    Append { v: Fr },
    Delete { i: usize },
    /// member k publishes through `prover` (peer index); via_witness: the witness is taken from a
    /// stateful peer and proved with generate_rln_proof_with_witness (the only way for stateless)
    Publish { member: usize, prover: usize, id: Fr, ext: Fr, signal: Vec<u8>, via_witness: bool },
}

#[derive(Clone, Debug, PartialEq)]
pub struct Trace {
    pub seed: u64,
    pub peers: Vec<String>,
    pub members: Vec<(Fr, Fr, usize)>,
    pub events: Vec<Ev>,
}

impl Trace {
    pub fn to_json(&self) -> Value {
        json!({"engine":"e4","property":"C17","seed":self.seed,"peers":self.peers,
            "members": self.members.iter().map(|(s,l,i)| json!({"secret":fr_to_json(s),"limit":fr_to_json(l),"index":*i as u64})).collect::<Vec<_>>(),
            "events": self.events.iter().map(|e| match e {
                Ev::Set{i,v} => json!({"e":"set","i":*i as u64,"v":fr_to_json(v)}),
                Ev::Append{v} => json!({"e":"append","v":fr_to_json(v)}),
                Ev::Delete{i} => json!({"e":"delete","i":*i as u64}),
                Ev::Publish{member,prover,id,ext,signal,via_witness} => json!({"e":"publish","member":*member as u64,"prover":*prover as u64,"id":fr_to_json(id),"ext":fr_to_json(ext),"signal":hex(signal),"via_witness":*via_witness}),
            }).collect::<Vec<_>>()})
    }
    pub fn from_json(v: &Value) -> Option<Trace> {
        Some(Trace {
            seed: v["seed"].as_u64().unwrap_or(0),
            peers: v["peers"].as_array()?.iter().filter_map(|x| x.as_str().map(|s| s.to_string())).collect(),
            members: v["members"].as_array()?.iter().map(|m| (fr_from_json(&m["secret"]), fr_from_json(&m["limit"]), m["index"].as_u64().unwrap_or(0) as usize)).collect(),
            events: v["events"].as_array()?.iter().filter_map(|e| Some(match e["e"].as_str()? {
                "set" => Ev::Set { i: e["i"].as_u64()? as usize, v: fr_from_json(&e["v"]) },
                "append" => Ev::Append { v: fr_from_json(&e["v"]) },
                "delete" => Ev::Delete { i: e["i"].as_u64()? as usize },
                "publish" => Ev::Publish { member: e["member"].as_u64()? as usize, prover: e["prover"].as_u64()? as usize, id: fr_from_json(&e["id"]), ext: fr_from_json(&e["ext"]),
                    signal: unhex(e["signal"].as_str().unwrap_or("")), via_witness: e["via_witness"].as_bool().unwrap_or(false) },
                _ => return None,
            })).collect(),
        })
    }
    pub fn digest(&self) -> u64 {
        fnv_str(&self.to_json().to_string())
    }
}

pub struct Outcome {
    pub violation: Option<(String, String, usize)>, // clause, detail, event index
    pub harness_error: Option<String>,
    pub counters: Counters,
    pub log: u64,
}

pub fn generate(seed: u64, peers: &[String]) -> Trace {
    let mut rng = Prng::new(seed);
    let n_members = 1 + rng.usize_below(2);
    let mut members = Vec::new();
    for _ in 0..n_members {
        let index = *rng.pick(&[0usize, 1, 3, (1 << 19) - 1, 1 << 19, (1 << 20) - 1, 300, 70000]);
        if members.iter().any(|m: &(Fr, Fr, usize)| m.2 == index) {
            continue;
        }
        members.push((fr_from_le(&rng.bytes(32)), Fr::from(*rng.pick(&[1u64, 2, 100, 65535, 65536])), index));
    }
    let mut events = Vec::new();
    // leaf values include the default leaf (a write of zero still occupies the position) and boundary values
    let val = |rng: &mut Prng| -> Fr {
        match rng.weighted(&[2, 1, 1, 6]) {
            0 => Fr::from(0u64),
            1 => Fr::from(1u64),
            2 => fr_minus_one(),
            _ => fr_from_le(&rng.bytes(32)),
        }
    };
    let mut touched: Vec<usize> = Vec::new();
    // rough leaf count, for boundary positions (0, count-1, count, count+1), deletions on a still-empty tree,
    // refused writes beyond capacity
    let mut count = 0usize;
    for _ in 0..(1 + rng.usize_below(7)) {
        let boundary = [0usize, 1, count.saturating_sub(1), count, count + 1];
        events.push(match rng.below(5) {
            0 => {
                let i = match rng.below(4) {
                    0 => *rng.pick(&boundary),
                    1 => 1usize << 20,                       // beyond capacity: refused by every backend
                    _ => *rng.pick(&[2usize, 3, 4, 5, 6, 1000 + rng.clone().usize_below(5000)]),
                };
                if i < (1 << 20) {
                    touched.push(i);
                    count = count.max(i + 1);
                }
                Ev::Set { i, v: val(&mut rng) }
            }
            1 | 2 => {
                count += 1;
                Ev::Append { v: val(&mut rng) }
            }
            _ => Ev::Delete { i: match rng.below(3) { 0 => *rng.pick(&boundary), 1 if !touched.is_empty() => *rng.pick(&touched), _ => rng.usize_below(6000) } },
        });
    }
    for (s, l, i) in &members {
        events.push(Ev::Set { i: *i, v: rate_commitment(s, l) });
        if rng.chance(1, 2) {
            events.push(Ev::Append { v: val(&mut rng) });
        }
        if rng.chance(1, 3) {
            events.push(Ev::Delete { i: 1000 + rng.usize_below(5000) });
        }
    }
    let npub = 1 + rng.usize_below(2);
    for _ in 0..npub {
        let member = rng.usize_below(members.len());
        let lim = u64::from_le_bytes(fr_to_le32(&members[member].1)[..8].try_into().unwrap());
        let prover = rng.usize_below(peers.len());
        let via_witness = peers[prover] == "stateless" || rng.chance(1, 4);
        events.push(Ev::Publish { member, prover, id: Fr::from(*rng.pick(&[0u64, lim - 1, rng.clone().below(lim)])), ext: fr_from_le(&rng.bytes(32)),
            signal: { let k = rng.usize_below(60); rng.bytes(k) }, via_witness });
        if rng.chance(1, 3) {
            events.push(Ev::Set { i: 9000 + rng.usize_below(100), v: fr_from_le(&rng.bytes(32)) });
        }
    }
    Trace { seed, peers: peers.to_vec(), members, events }
}

pub fn run(trace: &Trace, peers: &mut [Peer]) -> Outcome {
    let mut o = Outcome { violation: None, harness_error: None, counters: Counters::default(), log: 0 };
    let mut log = Fnv::new();
    let mut model = IdealTree::new(20);
    for p in peers.iter_mut() {
        let r = p.call(json!({"cmd": "reset"}));
        if r["ok"] != true {
            o.violation = Some(("peer_failed".into(), format!("{}: reset: {}", p.name, r), 0));
            return o;
        }
    }
    macro_rules! fail {
        ($clause:expr, $detail:expr, $ei:expr) => {{
            o.violation = Some(($clause.to_string(), $detail, $ei));
            o.log = log.0;
            return o;
        }};
    }
    let lazy = (trace.seed.wrapping_mul(0x9e37_79b9_7f4a_7c15) >> 61) % 3 == 0;
    let look = |ei: usize| (trace.seed ^ (ei as u64).wrapping_mul(0xd6e8_feb8_6659_fd93)).wrapping_mul(0x9e37_79b9_7f4a_7c15) >> 62 == 0;
    let last_m = trace.events.iter().rposition(|e| matches!(e, Ev::Set { .. } | Ev::Append { .. } | Ev::Delete { .. }));
    let last_membership = |ei: usize| Some(ei) == last_m;
    for (ei, ev) in trace.events.iter().enumerate() {
        match ev {
            Ev::Set { .. } | Ev::Append { .. } | Ev::Delete { .. } => {
                let (req, probe) = match ev {
                    Ev::Set { i, v } => {
                        model.set(*i, *v);
                        (json!({"cmd":"set","i":*i as u64,"v":hex(&fr_to_le32(v))}), *i)
                    }
                    Ev::Append { v } => {
                        let at = model.hwm;
                        model.append(*v);
                        (json!({"cmd":"append","v":hex(&fr_to_le32(v))}), at)
                    }
                    Ev::Delete { i } => {
                        model.delete(*i);
                        (json!({"cmd":"delete","i":*i as u64}), *i)
                    }
                    _ => unreachable!(),
                };
                o.counters.inc("membership_events");
                let want_root = hex(&fr_to_le32(&model.root()));
                let mut first_path: Option<(String, String)> = None;
                for p in peers.iter_mut().filter(|p| !p.stateless) {
                    let r = p.call(req.clone());
                    // delete of a never-set position may be refused by a backend; the state is what counts
                    if r.get("transport").is_some() || r.get("panic").is_some() {
                        fail!("peer_failed", format!("{}: {} -> {}", p.name, req, r), ei);
                    }
                    // one scenario in three reads the builds' state only now and then (and after the last event): reading after
                    // every event would force at once whatever a backend defers until the next read
                    if lazy && !look(ei) && !last_membership(ei) {
                        o.counters.inc("events_not_observed");
                        continue;
                    }
                    let rr = p.call(json!({"cmd":"root"}));
                    let got = rr["bytes"].as_str().unwrap_or("").to_string();
                    o.counters.inc("oracle_evaluations");
                    if got != want_root {
                        fail!("roots_differ", format!("after {}: build '{}' reports root {} (leaves_set {}), the ideal tree and the other builds {}", req, p.name, got, rr["leaves_set"], want_root), ei);
                    }
                    if rr["leaves_set"].as_u64() != Some(model.hwm as u64) {
                        fail!("leaf_counts_differ", format!("after {}: build '{}' reports leaves_set {} != {}", req, p.name, rr["leaves_set"], model.hwm), ei);
                    }
                    let pr = p.call(json!({"cmd":"get_proof","i":probe as u64}));
                    let pb = pr["bytes"].as_str().unwrap_or("").to_string();
                    match &first_path {
                        None => first_path = Some((p.name.clone(), pb)),
                        Some((n0, b0)) => {
                            if *b0 != pb {
                                fail!("paths_differ", format!("membership path of leaf {probe} differs between builds '{}' and '{}'", n0, p.name), ei);
                            }
                        }
                    }
                }
                log.add(want_root.as_bytes());
            }
            Ev::Publish { member, prover, id, ext, signal, via_witness } => {
                let (secret, limit, index) = trace.members[*member];
                if model.get(index) != rate_commitment(&secret, &limit) {
                    continue;
                }
                let request = enc_request(&secret, index as u64, &limit, id, ext, signal);
                let root = model.root();
                let pname = peers[*prover].name.clone();
                let msg = if *via_witness {
                    // the witness comes from any stateful build
                    let src = peers.iter().position(|p| !p.stateless).unwrap();
                    let w = peers[src].call(json!({"cmd":"witness","request":hex(&request)}));
                    if w["ok"] != true {
                        fail!("peer_failed", format!("{}: witness: {}", peers[src].name, w), ei);
                    }
                    peers[*prover].call(json!({"cmd":"prove_with_witness","witness":w["bytes"]}))
                } else {
                    peers[*prover].call(json!({"cmd":"prove","request":hex(&request)}))
                };
                o.counters.inc("proofs_generated");
                o.counters.inc(&format!("prover.{pname}"));
                if msg["ok"] != true {
                    fail!("prove_failed", format!("build '{pname}' could not prove a valid request: {msg}"), ei);
                }
                let mb = unhex(msg["bytes"].as_str().unwrap_or(""));
                let input = hex(&enc_verify_input(&mb, signal));
                for p in peers.iter_mut() {
                    let r = if p.stateless {
                        p.call(json!({"cmd":"verify_roots","input":input,"roots":hex(&fr_to_le32(&root))}))
                    } else {
                        p.call(json!({"cmd":"verify_rln","input":input}))
                    };
                    o.counters.inc("oracle_evaluations");
                    o.counters.inc(&format!("verifier.{}", p.name));
                    if r["verdict"] != true {
                        fail!("message_rejected", format!("a message produced under build '{pname}' is not accepted under build '{}': {}", p.name, r), ei);
                    }
                    log.add(b"T");
                }
                // the builds also agree on what they refuse: two altered copies (a public value changed, a root set
                // without the root) must not be accepted under any build
                let mut bad = mb.clone();
                if bad.len() >= 288 {
                    bad[224] ^= 1; // low byte of y
                }
                let bad_input = hex(&enc_verify_input(&bad, signal));
                let other_root = hex(&fr_to_le32(&h(&[root, Fr::from(1u64)])));
                for p in peers.iter_mut() {
                    let r1 = if p.stateless {
                        p.call(json!({"cmd":"verify_roots","input":bad_input,"roots":hex(&fr_to_le32(&root))}))
                    } else {
                        p.call(json!({"cmd":"verify_rln","input":bad_input}))
                    };
                    let r2 = p.call(json!({"cmd":"verify_roots","input":input,"roots":other_root}));
                    o.counters.add("oracle_evaluations", 2);
                    if r1["verdict"] == true || r2["verdict"] == true {
                        fail!("build_accepts_what_others_refuse", format!("build '{}' accepted an altered copy or a root set without the message root (message produced under '{pname}')", p.name), ei);
                    }
                    if r1.get("panic").is_some() || r2.get("panic").is_some() || r1.get("transport").is_some() {
                        fail!("peer_failed", format!("{}: {} {}", p.name, r1, r2), ei);
                    }
                }
            }
        }
    }
    o.log = log.0;
    o
}

/// Once per driver: every build loads the same keys.
pub fn check_keys(peers: &mut [Peer]) -> Result<Counters, (String, String)> {
    let mut c = Counters::default();
    let mut vk: Option<(String, String)> = None;
    let mut kd: Option<(String, String)> = None;
    for p in peers.iter_mut() {
        let a = p.call(json!({"cmd":"vk_digest"}));
        let b = p.call(json!({"cmd":"key_digest"}));
        let (a, b) = (a["digest"].as_str().unwrap_or("?").to_string(), b["digest"].as_str().unwrap_or("?").to_string());
        c.inc("key_digests_compared");
        match &vk {
            None => vk = Some((p.name.clone(), a)),
            Some((n0, d0)) => {
                if *d0 != a {
                    return Err(("verifying_keys_differ".into(), format!("builds '{n0}' and '{}' load different verifying keys", p.name)));
                }
            }
        }
        match &kd {
            None => kd = Some((p.name.clone(), b)),
            Some((n0, d0)) => {
                if *d0 != b {
                    return Err(("proving_keys_or_matrices_differ".into(), format!("builds '{n0}' and '{}' load different proving keys / constraint matrices", p.name)));
                }
            }
        }
        if p.name == "arkzkey" {
            let e = p.call(json!({"cmd":"keys_equal"}));
            c.inc("key_files_compared");
            if e["proving_key_equal"] != true || e["matrices_equal"] != true {
                return Err(("key_files_differ".into(), format!("snarkjs key file and arkworks key file do not load to equal (ProvingKey, ConstraintMatrices): {e}")));
            }
        }
    }
    Ok(c)
}

pub fn shrink(trace: &Trace, class: &str, peers: &mut [Peer], budget: usize) -> (Trace, usize) {
    let mut best = trace.clone();
    let mut used = 0;
    let mut i = 0;
    while i < best.events.len() && used < budget {
        let mut t = best.clone();
        t.events.remove(i);
        used += 1;
        let o = run(&t, peers);
        if matches!(&o.violation, Some((c, _, _)) if c == class) {
            best = t;
        } else {
            i += 1;
        }
    }
    (best, used)
}
