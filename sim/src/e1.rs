//! E1 — tree state-machine simulation (C06, C07, C08, C15; C16 builds on it in e1_store.rs).
//!
//! Nodes: Full / Optimal / PmTree at trait level plus an RLN instance driven through the byte
//! level public API with simulated readers/writers. All nodes receive one history; each node is
//! compared with its own IdealTree after every step.

use ark_bn254::Fr;
use serde_json::{json, Value};
use std::collections::{BTreeSet, HashSet};
use std::io::Cursor;

use rln::hashers::PoseidonHash;
use zerokit_utils::{
    FullMerkleBranch, FullMerkleProof, FullMerkleTree, OptimalMerkleProof, OptimalMerkleTree,
    ZerokitMerkleProof, ZerokitMerkleTree,
};

#[cfg(feature = "pm")]
use rln::pm_tree_adapter::{PmTree, PmTreeProof, PmtreeConfig};

use crate::io::{ReadPlan, SimReader, SimWriter, WritePlan};
use crate::model::{BatchOutcome, IdealTree};
use crate::prng::Prng;
use crate::util::*;

// ------------------------------------------------------------------------------------------------
// Trace
// ------------------------------------------------------------------------------------------------

#[derive(Clone, Debug, PartialEq)]
pub enum Op {
    Set { i: usize, v: Fr },
    Delete { i: usize },
    Append { v: Fr },
    SetRange { start: usize, vals: Vec<Fr> },
    Batch { start: usize, vals: Vec<Fr>, rem: Vec<usize> },
    Reset,
    Init { vals: Vec<Fr> },
    SetMeta { bytes: Vec<u8> },
    Flush,
    Reopen { flush: bool },
}

impl Op {
    pub fn kind(&self) -> &'static str {
        match self {
            Op::Set { .. } => "set",
            Op::Delete { .. } => "delete",
            Op::Append { .. } => "append",
            Op::SetRange { .. } => "set_range",
            Op::Batch { .. } => "batch",
            Op::Reset => "reset",
            Op::Init { .. } => "init",
            Op::SetMeta { .. } => "set_meta",
            Op::Flush => "flush",
            Op::Reopen { .. } => "reopen",
        }
    }
    /// Which property owns a misbehaviour (wrong state / panic) of this operation kind.
    pub fn owner(&self) -> &'static str {
        match self {
            Op::Batch { .. } | Op::Init { .. } => "C08",
            Op::SetMeta { .. } | Op::Flush | Op::Reopen { .. } => "C16",
            _ => "C06",
        }
    }
    pub fn to_json(&self) -> Value {
        match self {
            Op::Set { i, v } => json!({"op":"set","i":*i as u64,"v":fr_to_json(v)}),
            Op::Delete { i } => json!({"op":"delete","i":*i as u64}),
            Op::Append { v } => json!({"op":"append","v":fr_to_json(v)}),
            Op::SetRange { start, vals } => {
                json!({"op":"set_range","start":*start as u64,"vals":frs_to_json(vals)})
            }
            Op::Batch { start, vals, rem } => {
                json!({"op":"batch","start":*start as u64,"vals":frs_to_json(vals),"rem":usizes_to_json(rem)})
            }
            Op::Reset => json!({"op":"reset"}),
            Op::Init { vals } => json!({"op":"init","vals":frs_to_json(vals)}),
            Op::SetMeta { bytes } => json!({"op":"set_meta","bytes":hex(bytes)}),
            Op::Flush => json!({"op":"flush"}),
            Op::Reopen { flush } => json!({"op":"reopen","flush":*flush}),
        }
    }
    pub fn from_json(v: &Value) -> Option<Op> {
        let u = |k: &str| v[k].as_u64().unwrap_or(0) as usize;
        Some(match v["op"].as_str()? {
            "set" => Op::Set { i: u("i"), v: fr_from_json(&v["v"]) },
            "delete" => Op::Delete { i: u("i") },
            "append" => Op::Append { v: fr_from_json(&v["v"]) },
            "set_range" => Op::SetRange { start: u("start"), vals: frs_from_json(&v["vals"]) },
            "batch" => Op::Batch {
                start: u("start"),
                vals: frs_from_json(&v["vals"]),
                rem: usizes_from_json(&v["rem"]),
            },
            "reset" => Op::Reset,
            "init" => Op::Init { vals: frs_from_json(&v["vals"]) },
            "set_meta" => Op::SetMeta { bytes: unhex(v["bytes"].as_str().unwrap_or("")) },
            "flush" => Op::Flush,
            "reopen" => Op::Reopen { flush: v["flush"].as_bool().unwrap_or(true) },
            _ => return None,
        })
    }
}

#[derive(Clone, Debug, PartialEq)]
pub struct Step {
    pub op: Op,
    /// RLN node: reader behaviour for the request bytes
    pub reader: ReadPlan,
    /// RLN node: writer behaviour for the getters evaluated after this step
    pub writer: WritePlan,
    /// RLN node: which byte-level entry point expresses a write-only batch (0 = set_leaves_from,
    /// 1 = atomic_operation)
    pub shape: u8,
}

impl Step {
    pub fn plain(op: Op) -> Self {
        Step { op, reader: ReadPlan::clean(), writer: WritePlan::clean(), shape: 0 }
    }
    pub fn to_json(&self) -> Value {
        let mut j = self.op.to_json();
        if !self.reader.is_clean() {
            j["reader"] = self.reader.to_json();
        }
        if self.writer != WritePlan::clean() {
            j["writer"] = self.writer.to_json();
        }
        if self.shape != 0 {
            j["shape"] = json!(self.shape);
        }
        j
    }
    pub fn from_json(v: &Value) -> Option<Step> {
        Some(Step {
            op: Op::from_json(v)?,
            reader: if v["reader"].is_object() { ReadPlan::from_json(&v["reader"]) } else { ReadPlan::clean() },
            writer: if v["writer"].is_object() { WritePlan::from_json(&v["writer"]) } else { WritePlan::clean() },
            shape: v["shape"].as_u64().unwrap_or(0) as u8,
        })
    }
}

#[derive(Clone, Debug, PartialEq)]
pub struct Trace {
    pub prop: String,
    pub seed: u64,
    pub depth: usize,
    /// node kinds: "full", "opt", "pm", "pmp" (persistent path), "rln", "rlnp"
    pub nodes: Vec<String>,
    /// sled configuration for persistent nodes
    pub store: StoreCfg,
    pub steps: Vec<Step>,
}

#[derive(Clone, Debug, PartialEq)]
pub struct StoreCfg {
    pub cache_capacity: u64,
    pub flush_every_ms: Option<u64>,
    pub mode_low_space: bool,
    /// optional keys left out of the JSON (the parser's defaults apply): bit 0 cache_capacity, 1 flush_every_ms, 2 mode,
    /// 3 use_compression
    pub omit: u8,
}

impl StoreCfg {
    pub fn default_cfg() -> Self {
        StoreCfg { cache_capacity: 1 << 20, flush_every_ms: None, mode_low_space: false, omit: 0 }
    }
    pub fn gen(rng: &mut Prng) -> Self {
        let mut c = StoreCfg {
            cache_capacity: *rng.pick(&[1024u64, 4096, 150_000, 1 << 20, 1 << 30]),
            flush_every_ms: *rng.pick(&[None, None, Some(50), Some(12_000)]),
            mode_low_space: rng.chance(1, 4),
            omit: 0,
        };
        // derived from the values already drawn (keeps the draw sequence of every later choice unchanged)
        let h = c.cache_capacity.wrapping_mul(0x9e37_79b9_7f4a_7c15) ^ c.flush_every_ms.unwrap_or(7) ^ ((c.mode_low_space as u64) << 17);
        if (h >> 20) % 3 == 0 {
            c.omit = ((h >> 24) & 0xf) as u8;
        }
        c
    }
    pub fn to_json(&self) -> Value {
        json!({"cache_capacity": self.cache_capacity, "flush_every_ms": self.flush_every_ms, "low_space": self.mode_low_space, "omit": self.omit})
    }
    pub fn from_json(v: &Value) -> Self {
        StoreCfg {
            cache_capacity: v["cache_capacity"].as_u64().unwrap_or(1 << 20),
            flush_every_ms: v["flush_every_ms"].as_u64(),
            mode_low_space: v["low_space"].as_bool().unwrap_or(false),
            omit: v["omit"].as_u64().unwrap_or(0) as u8,
        }
    }
    /// JSON tree configuration as accepted by PmtreeConfig::from_str.
    pub fn tree_config(&self, path: &std::path::Path) -> String {
        let mut m = serde_json::Map::new();
        m.insert("path".into(), json!(path.to_str().unwrap()));
        m.insert("temporary".into(), json!(false));
        if self.omit & 1 == 0 {
            m.insert("cache_capacity".into(), json!(self.cache_capacity));
        }
        if self.omit & 2 == 0 {
            m.insert("flush_every_ms".into(), json!(self.flush_every_ms));
        }
        if self.omit & 4 == 0 {
            m.insert("mode".into(), json!(if self.mode_low_space { "LowSpace" } else { "HighThroughput" }));
        }
        if self.omit & 8 == 0 {
            m.insert("use_compression".into(), json!(false));
        }
        Value::Object(m).to_string()
    }
}

impl Trace {
    pub fn to_json(&self) -> Value {
        json!({
            "engine": "e1",
            "property": self.prop,
            "seed": self.seed,
            "depth": self.depth as u64,
            "nodes": self.nodes,
            "store": self.store.to_json(),
            "steps": self.steps.iter().map(|s| s.to_json()).collect::<Vec<_>>(),
        })
    }
    pub fn from_json(v: &Value) -> Option<Trace> {
        Some(Trace {
            prop: v["property"].as_str()?.to_string(),
            seed: v["seed"].as_u64().unwrap_or(0),
            depth: v["depth"].as_u64()? as usize,
            nodes: v["nodes"].as_array()?.iter().filter_map(|x| x.as_str().map(|s| s.to_string())).collect(),
            store: StoreCfg::from_json(&v["store"]),
            steps: v["steps"].as_array()?.iter().filter_map(Step::from_json).collect(),
        })
    }
    pub fn digest(&self) -> u64 {
        fnv_str(&self.to_json().to_string())
    }
}

// ------------------------------------------------------------------------------------------------
// Violations
// ------------------------------------------------------------------------------------------------

#[derive(Clone, Debug)]
pub struct Violation {
    pub prop: String,
    pub node: String,
    pub step: usize,
    pub op_kind: String,
    pub clause: String,
    pub detail: String,
}

impl Violation {
    pub fn class(&self) -> String {
        format!("{}|{}|{}|{}", self.prop, self.node, self.op_kind, self.clause)
    }
    pub fn to_json(&self) -> Value {
        json!({"property": self.prop, "node": self.node, "step": self.step as u64, "op_kind": self.op_kind,
               "clause": self.clause, "detail": self.detail, "class": self.class()})
    }
}

// ------------------------------------------------------------------------------------------------
// Known-finding signatures (predicates over node kind, operation and pre-state).
// A signature is only *active* when the orchestrator lists it as an open finding.
// ------------------------------------------------------------------------------------------------

pub fn is_pm_kind(kind: &str) -> bool {
    matches!(kind, "pm" | "pmp") || (cfg!(feature = "pm") && !cfg!(feature = "full") && matches!(kind, "rln" | "rlnp"))
}

pub fn matching_signatures(kind: &str, op: &Op, pre: &IdealTree) -> Vec<&'static str> {
    let mut out = Vec::new();
    let _ = pre;
    match op {
        Op::Batch { start, vals, rem } => {
            // the mixed (write + remove) arm of PmTree::override_range. When every removal index lies inside the
            // written range and the smallest one equals `start` the tree state comes out right and only the
            // empty-leaf flags are wrong ("pm_batch_mixed_flags"); every other shape corrupts the state.
            if is_pm_kind(kind) && !vals.is_empty() && !rem.is_empty() {
                let min = *rem.iter().min().unwrap();
                let max = *rem.iter().max().unwrap();
                if min == *start && max < start.saturating_add(vals.len()) {
                    out.push("pm_batch_mixed_flags");
                } else {
                    out.push("pm_batch_mixed");
                }
            }
        }
        Op::Reset | Op::Init { .. } => {
            if kind == "rlnp" && is_pm_kind(kind) {
                out.push("rln_reset_detaches_storage");
            }
        }
        _ => {}
    }
    out
}

// ------------------------------------------------------------------------------------------------
// Nodes
// ------------------------------------------------------------------------------------------------

pub enum Sut {
    Full(FullMerkleTree<PoseidonHash>),
    Opt(OptimalMerkleTree<PoseidonHash>),
    #[cfg(feature = "pm")]
    Pm(PmTree),
    #[cfg(not(feature = "stateless"))]
    Rln(Box<rln::public::RLN>),
    /// a node whose instance was lost (failed reopen); only used transiently
    Gone,
}

pub struct Node {
    pub kind: String,
    pub sut: Sut,
    pub model: IdealTree,
    pub path: Option<std::path::PathBuf>,
    /// true once the node was reopened at least once (C15 relaxes explicit-default writes then)
    pub reopened: bool,
    /// explicit-default positions present at the last reopen
    pub relaxed: BTreeSet<usize>,
}

pub struct Ctx<'a> {
    pub prop: &'a str,
    pub known: &'a HashSet<String>,
    pub scratch: &'a std::path::Path,
    pub counters: Counters,
    pub log: Fnv,
    pub states: HashSet<u64>,
    pub probes: BTreeSet<usize>,
    pub alterations: u64,
    pub step: usize,
    /// C16 L1: fail the k-th storage write/flush of the run (transient or from then on)
    pub fault: Option<(u64, bool)>,
    /// what happened to the armed fault: "" (not armed), "not_reached", "fired:<kind>"
    pub fault_outcome: String,
}

impl<'a> Ctx<'a> {
    pub fn new(prop: &'a str, known: &'a HashSet<String>, scratch: &'a std::path::Path) -> Self {
        Ctx {
            prop,
            known,
            scratch,
            counters: Counters::default(),
            log: Fnv::new(),
            states: HashSet::new(),
            probes: BTreeSet::new(),
            alterations: 0,
            step: 0,
            fault: None,
            fault_outcome: String::new(),
        }
    }
}

fn rep<E: std::fmt::Display>(r: Result<(), E>) -> Result<(), String> {
    r.map_err(|e| e.to_string())
}

/// Applies a tree-level operation to any backend through the ZerokitMerkleTree trait.
fn apply_tree<T>(t: &mut T, op: &Op) -> Result<(), String>
where
    T: ZerokitMerkleTree<Hasher = PoseidonHash>,
{
    match op {
        Op::Set { i, v } => rep(t.set(*i, *v)),
        Op::Delete { i } => rep(t.delete(*i)),
        Op::Append { v } => rep(t.update_next(*v)),
        Op::SetRange { start, vals } => rep(t.set_range(*start, vals.clone().into_iter())),
        Op::Batch { start, vals, rem } => {
            rep(t.override_range(*start, vals.clone().into_iter(), rem.clone().into_iter()))
        }
        Op::SetMeta { bytes } => rep(t.set_metadata(bytes)),
        Op::Flush => rep(t.close_db_connection()),
        Op::Reset | Op::Init { .. } | Op::Reopen { .. } => unreachable!(),
    }
}

pub fn enc_vec_fr(vals: &[Fr]) -> Vec<u8> {
    let mut b = Vec::with_capacity(8 + 32 * vals.len());
    b.extend_from_slice(&(vals.len() as u64).to_le_bytes());
    for v in vals {
        b.extend_from_slice(&fr_to_le32(v));
    }
    b
}

pub fn enc_vec_u8(vals: &[u8]) -> Vec<u8> {
    let mut b = Vec::with_capacity(8 + vals.len());
    b.extend_from_slice(&(vals.len() as u64).to_le_bytes());
    b.extend_from_slice(vals);
    b
}

#[cfg(not(feature = "stateless"))]
fn apply_rln(
    r: &mut rln::public::RLN,
    depth: usize,
    step: &Step,
    plan: &ReadPlan,
    ctx: &mut Ctx,
) -> Result<(), String> {
    let mut stats = crate::io::IoStats::default();
    let res = match &step.op {
        Op::Set { i, v } => {
            let b = fr_to_le32(v);
            let mut rd = SimReader::new(&b, plan.clone());
            let x = rep(r.set_leaf(*i, &mut rd));
            stats = rd.stats.clone();
            x
        }
        Op::Delete { i } => rep(r.delete_leaf(*i)),
        Op::Append { v } => {
            let b = fr_to_le32(v);
            let mut rd = SimReader::new(&b, plan.clone());
            let x = rep(r.set_next_leaf(&mut rd));
            stats = rd.stats.clone();
            x
        }
        Op::SetRange { start, vals } => {
            // the byte level API has no plain range write; set_leaves_from is its documented form
            let b = enc_vec_fr(vals);
            let mut rd = SimReader::new(&b, plan.clone());
            let x = rep(r.set_leaves_from(*start, &mut rd));
            stats = rd.stats.clone();
            x
        }
        Op::Batch { start, vals, rem } => {
            let lb = enc_vec_fr(vals);
            if rem.is_empty() && step.shape == 0 {
                let mut rd = SimReader::new(&lb, plan.clone());
                let x = rep(r.set_leaves_from(*start, &mut rd));
                stats = rd.stats.clone();
                x
            } else {
                let ib = enc_vec_u8(&rem.iter().map(|x| *x as u8).collect::<Vec<_>>());
                let mut rd1 = SimReader::new(&lb, plan.clone());
                let mut rd2 = SimReader::new(&ib, plan.clone());
                let x = rep(r.atomic_operation(*start, &mut rd1, &mut rd2));
                stats = rd1.stats.clone();
                stats.interrupts += rd2.stats.interrupts;
                stats.short_reads += rd2.stats.short_reads;
                stats.read_errors += rd2.stats.read_errors;
                x
            }
        }
        Op::Reset => rep(r.set_tree(depth)),
        Op::Init { vals } => {
            let b = enc_vec_fr(vals);
            let mut rd = SimReader::new(&b, plan.clone());
            let x = rep(r.init_tree_with_leaves(&mut rd));
            stats = rd.stats.clone();
            x
        }
        Op::SetMeta { bytes } => rep(r.set_metadata(bytes)),
        Op::Flush => rep(r.flush()),
        Op::Reopen { .. } => unreachable!(),
    };
    ctx.counters.add("fault.reader_short_read", stats.short_reads);
    ctx.counters.add("fault.reader_interrupted", stats.interrupts);
    ctx.counters.add("fault.reader_error", stats.read_errors);
    res
}

impl Node {
    pub fn create(kind: &str, depth: usize, store: &StoreCfg, scratch: &std::path::Path) -> Result<Node, String> {
        let mut path = None;
        let sut = match kind {
            "full" => Sut::Full(rep_t(FullMerkleTree::<PoseidonHash>::default(depth))?),
            "opt" => Sut::Opt(rep_t(OptimalMerkleTree::<PoseidonHash>::default(depth))?),
            #[cfg(feature = "pm")]
            "pm" => Sut::Pm(rep_t(PmTree::default(depth))?),
            #[cfg(feature = "pm")]
            "pmp" => {
                let p = scratch.join("pmp");
                let cfg: PmtreeConfig = store.tree_config(&p).parse().map_err(|e: color_eyre::Report| e.to_string())?;
                path = Some(p);
                Sut::Pm(rep_t(PmTree::new(depth, Fr::from(0u64), cfg))?)
            }
            #[cfg(not(feature = "stateless"))]
            "rln" => {
                let r = rln::public::RLN::new(depth, Cursor::new(json!({}).to_string())).map_err(|e| e.to_string())?;
                Sut::Rln(Box::new(r))
            }
            #[cfg(not(feature = "stateless"))]
            "rlnp" => {
                let p = scratch.join("rlnp");
                let cfg = format!("{{\"tree_config\": {}}}", store.tree_config(&p));
                path = Some(p);
                let r = rln::public::RLN::new(depth, Cursor::new(cfg)).map_err(|e| e.to_string())?;
                Sut::Rln(Box::new(r))
            }
            other => return Err(format!("unknown node kind {other}")),
        };
        Ok(Node {
            kind: kind.to_string(),
            sut,
            model: IdealTree::new(depth),
            path,
            reopened: false,
            relaxed: BTreeSet::new(),
        })
    }

    #[cfg(not(feature = "stateless"))]
    pub fn wrap_rln(r: rln::public::RLN, depth: usize) -> Node {
        Node { kind: "rln".into(), sut: Sut::Rln(Box::new(r)), model: IdealTree::new(depth), path: None, reopened: false, relaxed: BTreeSet::new() }
    }

    #[cfg(feature = "pm")]
    pub fn wrap_pm(t: PmTree, depth: usize) -> Node {
        Node { kind: "pm".into(), sut: Sut::Pm(t), model: IdealTree::new(depth), path: None, reopened: false, relaxed: BTreeSet::new() }
    }

    pub fn persistent(&self) -> bool {
        self.path.is_some()
    }

    /// Issues the operation to the system under test. Err(msg) = the call returned an error.
    pub fn apply(&mut self, step: &Step, plan: &ReadPlan, store: &StoreCfg, ctx: &mut Ctx) -> Result<(), String> {
        let depth = self.model.depth;
        match (&mut self.sut, &step.op) {
            (Sut::Full(t), Op::Reset) => {
                *t = rep_t(FullMerkleTree::<PoseidonHash>::default(depth))?;
                Ok(())
            }
            (Sut::Opt(t), Op::Reset) => {
                *t = rep_t(OptimalMerkleTree::<PoseidonHash>::default(depth))?;
                Ok(())
            }
            #[cfg(feature = "pm")]
            (Sut::Pm(t), Op::Reset) => {
                *t = rep_t(PmTree::default(depth))?;
                Ok(())
            }
            (Sut::Full(t), Op::Init { vals }) => {
                *t = rep_t(FullMerkleTree::<PoseidonHash>::default(depth))?;
                rep(t.override_range(0, vals.clone().into_iter(), Vec::<usize>::new().into_iter()))
            }
            (Sut::Opt(t), Op::Init { vals }) => {
                *t = rep_t(OptimalMerkleTree::<PoseidonHash>::default(depth))?;
                rep(t.override_range(0, vals.clone().into_iter(), Vec::<usize>::new().into_iter()))
            }
            #[cfg(feature = "pm")]
            (Sut::Pm(t), Op::Init { vals }) => {
                *t = rep_t(PmTree::default(depth))?;
                rep(t.override_range(0, vals.clone().into_iter(), Vec::<usize>::new().into_iter()))
            }
            (_, Op::Reopen { flush }) => self.reopen(*flush, store),
            (Sut::Full(t), _) => apply_tree(t, &step.op),
            (Sut::Opt(t), _) => apply_tree(t, &step.op),
            #[cfg(feature = "pm")]
            (Sut::Pm(t), _) => apply_tree(t, &step.op),
            #[cfg(not(feature = "stateless"))]
            (Sut::Rln(r), _) => apply_rln(r, depth, step, plan, ctx),
            (Sut::Gone, _) => Err("node gone".to_string()),
        }
    }

    /// close(+flush) / drop, then open again at the same location.
    pub fn reopen(&mut self, flush: bool, store: &StoreCfg) -> Result<(), String> {
        let depth = self.model.depth;
        let path = match &self.path {
            Some(p) => p.clone(),
            None => return Ok(()),
        };
        let old = std::mem::replace(&mut self.sut, Sut::Gone);
        match old {
            #[cfg(feature = "pm")]
            Sut::Pm(mut t) => {
                if flush {
                    rep(t.close_db_connection())?;
                }
                drop(t);
            }
            #[cfg(not(feature = "stateless"))]
            Sut::Rln(mut r) => {
                if flush {
                    rep(r.flush())?;
                }
                drop(r);
            }
            _ => {}
        }
        wait_unlocked(&path);
        if self.kind.starts_with("rln") {
            #[cfg(not(feature = "stateless"))]
            {
                let cfg = format!("{{\"tree_config\": {}}}", store.tree_config(&path));
                let r = rln::public::RLN::new(depth, Cursor::new(cfg)).map_err(|e| e.to_string())?;
                self.sut = Sut::Rln(Box::new(r));
            }
        } else {
            #[cfg(feature = "pm")]
            {
                let cfg: PmtreeConfig = store.tree_config(&path).parse().map_err(|e: color_eyre::Report| e.to_string())?;
                self.sut = Sut::Pm(rep_t(PmTree::new(depth, Fr::from(0u64), cfg))?);
            }
        }
        self.reopened = true;
        self.relaxed = self.model.wrote_default_positions().into_iter().collect();
        Ok(())
    }

    /// Replaces the instance by a fresh one brought to the model's state with primitive
    /// operations (after a misbehaving step owned by another property).
    pub fn rebuild_from_model(&mut self, store: &StoreCfg, scratch: &std::path::Path) -> Result<(), String> {
        let depth = self.model.depth;
        let model = self.model.clone();
        if let Some(p) = &self.path {
            let old = std::mem::replace(&mut self.sut, Sut::Gone);
            drop(old);
            wait_unlocked(p);
            let _ = std::fs::remove_dir_all(p);
        }
        let mut fresh = Node::create(&self.kind, depth, store, scratch)?;
        for i in 0..model.hwm {
            let f = model.flags.get(&i);
            let want_written = matches!(f, Some(f) if f.written && !f.removed_last);
            if want_written {
                fresh.prim_set(i, model.get(i))?;
            } else if i + 1 == model.hwm || matches!(f, Some(f) if f.removed_last) {
                fresh.prim_set(i, Fr::from(1u64))?;
                fresh.prim_delete(i)?;
            }
        }
        if !model.metadata.is_empty() {
            fresh.prim(Op::SetMeta { bytes: model.metadata.clone() })?;
        }
        self.sut = fresh.sut;
        self.reopened = false;
        self.relaxed.clear();
        Ok(())
    }

    pub fn prim(&mut self, op: Op) -> Result<(), String> {
        let st = Step::plain(op);
        let known = HashSet::new();
        let p = std::path::PathBuf::from("/nonexistent");
        let mut c = Ctx::new("", &known, &p);
        let sc = StoreCfg::default_cfg();
        guarded(|| self.apply(&st, &ReadPlan::clean(), &sc, &mut c)).map_err(|p| format!("panic: {p}"))?
    }
    pub fn prim_set(&mut self, i: usize, v: Fr) -> Result<(), String> {
        self.prim(Op::Set { i, v })
    }
    pub fn prim_delete(&mut self, i: usize) -> Result<(), String> {
        self.prim(Op::Delete { i })
    }

    pub fn read_leaf(&self, i: usize) -> Result<Fr, String> {
        match &self.sut {
            Sut::Full(t) => rep_t(t.get(i)),
            Sut::Opt(t) => rep_t(t.get(i)),
            #[cfg(feature = "pm")]
            Sut::Pm(t) => rep_t(t.get(i)),
            #[cfg(not(feature = "stateless"))]
            Sut::Rln(r) => {
                let mut w = Vec::new();
                r.get_leaf(i, &mut w).map_err(|e| e.to_string())?;
                Ok(fr_from_le(&w))
            }
            Sut::Gone => Err("gone".into()),
        }
    }

    pub fn read_root(&self) -> Result<Fr, String> {
        match &self.sut {
            Sut::Full(t) => Ok(t.root()),
            Sut::Opt(t) => Ok(t.root()),
            #[cfg(feature = "pm")]
            Sut::Pm(t) => Ok(t.root()),
            #[cfg(not(feature = "stateless"))]
            Sut::Rln(r) => {
                let mut w = Vec::new();
                r.get_root(&mut w).map_err(|e| e.to_string())?;
                Ok(fr_from_le(&w))
            }
            Sut::Gone => Err("gone".into()),
        }
    }

    pub fn read_meta(&self) -> Result<Vec<u8>, String> {
        match &self.sut {
            Sut::Full(t) => rep_t(t.metadata()),
            Sut::Opt(t) => rep_t(t.metadata()),
            #[cfg(feature = "pm")]
            Sut::Pm(t) => rep_t(t.metadata()),
            #[cfg(not(feature = "stateless"))]
            Sut::Rln(r) => {
                let mut w = Vec::new();
                r.get_metadata(&mut w).map_err(|e| e.to_string())?;
                Ok(w)
            }
            Sut::Gone => Err("gone".into()),
        }
    }

    pub fn is_gone(&self) -> bool {
        matches!(self.sut, Sut::Gone)
    }

    pub fn observed_hwm(&mut self) -> usize {
        match &mut self.sut {
            Sut::Full(t) => t.leaves_set(),
            Sut::Opt(t) => t.leaves_set(),
            #[cfg(feature = "pm")]
            Sut::Pm(t) => t.leaves_set(),
            #[cfg(not(feature = "stateless"))]
            Sut::Rln(r) => r.leaves_set(),
            Sut::Gone => 0,
        }
    }
}

fn rep_t<T, E: std::fmt::Display>(r: Result<T, E>) -> Result<T, String> {
    r.map_err(|e| e.to_string())
}

/// Waits (outside the deterministic log) until nobody holds the sled lock file any more, so that
/// a reopen never meets a *real* WouldBlock whose duration the simulator does not control.
pub fn wait_unlocked(path: &std::path::Path) {
    use fs2::FileExt;
    let db = path.join("db");
    for _ in 0..20000 {
        match std::fs::OpenOptions::new().read(true).write(true).open(&db) {
            Ok(f) => {
                if f.try_lock_exclusive().is_ok() {
                    let _ = f.unlock();
                    return;
                }
            }
            Err(_) => return,
        }
        std::thread::sleep(std::time::Duration::from_millis(1));
    }
}

// ------------------------------------------------------------------------------------------------
// Observation and comparison
// ------------------------------------------------------------------------------------------------

pub struct Mismatch {
    pub clause: &'static str,
    pub detail: String,
}

fn mm(clause: &'static str, detail: String) -> Option<Mismatch> {
    Some(Mismatch { clause, detail })
}

pub fn probe_positions(model: &IdealTree, extra: &BTreeSet<usize>) -> Vec<usize> {
    let cap = model.cap();
    if cap <= 64 {
        return (0..cap).collect();
    }
    let mut s: BTreeSet<usize> = BTreeSet::new();
    for p in [0, 1, 2, cap / 2 - 1, cap / 2, cap / 2 + 1, cap - 2, cap - 1] {
        s.insert(p);
    }
    if model.hwm > 0 {
        s.insert(model.hwm - 1);
    }
    if model.hwm < cap {
        s.insert(model.hwm);
    }
    for p in extra {
        if *p < cap {
            s.insert(*p);
        }
    }
    for (k, _) in model.leaves.iter().take(24) {
        s.insert(*k);
    }
    s.into_iter().collect()
}

/// C06 clauses for a trait-level tree.
fn compare_state_tree<T>(t: &T, model: &IdealTree, probes: &[usize]) -> Option<Mismatch>
where
    T: ZerokitMerkleTree<Hasher = PoseidonHash>,
{
    if t.leaves_set() != model.hwm {
        return mm("hwm", format!("leaves_set {} != model {}", t.leaves_set(), model.hwm));
    }
    let root = t.root();
    if root != model.root() {
        return mm("root", format!("root {} != model {}", fr_to_json(&root), fr_to_json(&model.root())));
    }
    for &i in probes {
        match t.get(i) {
            Ok(v) => {
                if v != model.get(i) {
                    return mm("leaf", format!("get({i}) = {} != model {}", fr_to_json(&v), fr_to_json(&model.get(i))));
                }
            }
            Err(e) => return mm("leaf", format!("get({i}) failed: {e}")),
        }
    }
    if t.get(model.cap()).is_ok() {
        return mm("leaf_oob", format!("get({}) beyond capacity succeeded", model.cap()));
    }
    // a tree that received a large batch (hundreds of leaves at once): every leaf and every stored node
    if model.depth <= 12 && model.cap() > 64 && model.leaves.len() > 200 {
        let levels = model.dense_levels();
        for i in 0..model.cap() {
            match t.get(i) {
                Ok(v) if v == levels[model.depth][i] => {}
                Ok(_) => return mm("leaf", format!("get({i}) differs from model after a large batch")),
                Err(e) => return mm("leaf", format!("get({i}) failed: {e}")),
            }
        }
        for level in 1..model.depth {
            let span = model.depth - level;
            for idx in 0..(1usize << level) {
                match t.get_subtree_root(level, idx << span) {
                    Ok(v) if v == levels[level][idx] => {}
                    Ok(_) => return mm("subtree_root", format!("get_subtree_root({level},{}) differs from model after a large batch", idx << span)),
                    Err(e) => return mm("subtree_root", format!("get_subtree_root({level},{}) failed: {e}", idx << span)),
                }
            }
        }
    }
    // subtree roots: every level for a few positions (all positions for small trees)
    let sub: Vec<usize> = if model.cap() <= 16 { probes.to_vec() } else { probes.iter().copied().step_by(3).take(8).collect() };
    for &i in &sub {
        for level in 0..=model.depth {
            match t.get_subtree_root(level, i) {
                Ok(v) => {
                    let want = model.node(level, i);
                    if v != want {
                        return mm("subtree_root", format!("get_subtree_root({level},{i}) differs from model"));
                    }
                }
                Err(e) => return mm("subtree_root", format!("get_subtree_root({level},{i}) failed: {e}")),
            }
        }
    }
    None
}

fn compare_meta_tree<T>(t: &T, model: &IdealTree) -> Option<Mismatch>
where
    T: ZerokitMerkleTree<Hasher = PoseidonHash>,
{
    match t.metadata() {
        Ok(m) => {
            if m != model.metadata {
                return mm("metadata", format!("metadata {} != model {}", hex(&m), hex(&model.metadata)));
            }
            None
        }
        Err(e) => mm("metadata", format!("metadata() failed: {e}")),
    }
}

fn empties_ok(got: &[usize], node: &Node) -> Option<Mismatch> {
    let strict = node.model.empties();
    if got == strict.as_slice() {
        return None;
    }
    if node.reopened {
        // after a reopen an explicitly written default value is indistinguishable from a removal
        let relaxed: BTreeSet<usize> = {
            let mut s: BTreeSet<usize> = strict.iter().copied().collect();
            for p in &node.relaxed {
                let still = matches!(node.model.flags.get(p), Some(f) if f.written && !f.removed_last && f.wrote_default);
                if still && *p < node.model.hwm {
                    s.insert(*p);
                }
            }
            s
        };
        // any set between strict and relaxed is accepted
        let gs: BTreeSet<usize> = got.iter().copied().collect();
        let sorted = got.windows(2).all(|w| w[0] < w[1]);
        if sorted && strict.iter().all(|x| gs.contains(x)) && gs.iter().all(|x| relaxed.contains(x)) {
            return None;
        }
    }
    let short = |v: &[usize]| if v.len() > 40 { format!("{:?}.. ({} entries)", &v[..40], v.len()) } else { format!("{:?}", v) };
    mm("empties", format!("empty list {} != model {}", short(got), short(&strict)))
}

/// Builds an altered proof object of the backend's own type.
trait ProofForge: ZerokitMerkleProof<Hasher = PoseidonHash, Index = u8> + Sized {
    fn forge(parts: Vec<(Fr, u8)>) -> Self;
}
impl ProofForge for FullMerkleProof<PoseidonHash> {
    fn forge(parts: Vec<(Fr, u8)>) -> Self {
        FullMerkleProof(
            parts
                .into_iter()
                .map(|(v, b)| if b == 0 { FullMerkleBranch::Left(v) } else { FullMerkleBranch::Right(v) })
                .collect(),
        )
    }
}
impl ProofForge for OptimalMerkleProof<PoseidonHash> {
    fn forge(parts: Vec<(Fr, u8)>) -> Self {
        OptimalMerkleProof(parts)
    }
}
#[cfg(feature = "pm")]
impl ProofForge for PmTreeProof {
    fn forge(parts: Vec<(Fr, u8)>) -> Self {
        PmTreeProof::verif_from_parts(parts)
    }
}

/// C07 clauses for a trait-level tree: completeness, binding, format, enumerated alterations.
fn check_proofs_tree<T>(t: &T, model: &IdealTree, probes: &[usize], alterations: &mut u64, rot: usize) -> Option<Mismatch>
where
    T: ZerokitMerkleTree<Hasher = PoseidonHash>,
    T::Proof: ProofForge,
{
    let root = model.root();
    // alterations are enumerated for a rotating subset of the probed positions (about six per
    // step; the rotation follows the step number, so over a run every position gets its turn)
    let stride = (probes.len() / 6).max(1);
    for (pi, &i) in probes.iter().enumerate() {
        let p = match t.proof(i) {
            Ok(p) => p,
            Err(e) => return mm("proof_exists", format!("proof({i}) failed: {e}")),
        };
        let (sib, bits) = model.path(i);
        if p.length() != model.depth {
            return mm("proof_len", format!("proof({i}).length() = {} != depth {}", p.length(), model.depth));
        }
        if p.leaf_index() != i {
            return mm("proof_index", format!("proof({i}).leaf_index() = {}", p.leaf_index()));
        }
        if p.get_path_index() != bits {
            return mm("proof_bits", format!("proof({i}) direction bits {:?} != {:?}", p.get_path_index(), bits));
        }
        if p.get_path_elements() != sib {
            return mm("proof_siblings", format!("proof({i}) siblings differ from model"));
        }
        let leaf = model.get(i);
        if p.compute_root_from(&leaf) != root {
            return mm("proof_root", format!("proof({i}) does not recompute the root from the stored leaf"));
        }
        match t.verify(&leaf, &p) {
            Ok(true) => {}
            other => return mm("proof_verify", format!("verify(leaf, proof({i})) = {:?}", other.map_err(|e| e.to_string()))),
        }
        if (pi + rot) % stride != 0 {
            continue;
        }
        // binding: another leaf value must not recompute the root / be accepted
        for other in [leaf + Fr::from(1u64), Fr::from(0u64), fr_minus_one()] {
            if other == leaf {
                continue;
            }
            *alterations += 1;
            if p.compute_root_from(&other) == root {
                return mm("proof_binding", format!("proof({i}) recomputes the root from a different leaf"));
            }
            if let Ok(true) = t.verify(&other, &p) {
                return mm("proof_binding", format!("verify(other leaf, proof({i})) accepted"));
            }
        }
        // enumerated single-field alterations
        let parts: Vec<(Fr, u8)> = sib.iter().copied().zip(bits.iter().copied()).collect();
        // node value along the path at each level (bottom-up), to know where children differ
        let mut cur = leaf;
        for l in 0..parts.len() {
            let (s, b) = parts[l];
            for repl in [Fr::from(0u64), s + Fr::from(1u64), cur, model.defaults[model.depth - l]] {
                if repl == s {
                    continue;
                }
                let mut alt = parts.clone();
                alt[l].0 = repl;
                *alterations += 1;
                let forged = <T::Proof as ProofForge>::forge(alt);
                if let Ok(true) = t.verify(&leaf, &forged) {
                    return mm("proof_alter_sibling", format!("proof({i}) with sibling {l} replaced was accepted"));
                }
            }
            if s != cur {
                let mut alt = parts.clone();
                alt[l].1 = 1 - b;
                *alterations += 1;
                let forged = <T::Proof as ProofForge>::forge(alt);
                if let Ok(true) = t.verify(&leaf, &forged) {
                    return mm("proof_alter_bit", format!("proof({i}) with direction bit {l} flipped was accepted"));
                }
            }
            cur = if b == 0 { crate::model::h2(cur, s) } else { crate::model::h2(s, cur) };
        }
    }
    if t.proof(model.cap()).is_ok() {
        return mm("proof_oob", format!("proof({}) beyond capacity succeeded", model.cap()));
    }
    None
}

#[cfg(not(feature = "stateless"))]
fn rln_get(r: &rln::public::RLN, wplan: &WritePlan, ctx: &mut Ctx, f: impl FnOnce(&rln::public::RLN, &mut SimWriter) -> color_eyre::Result<()>) -> Result<Vec<u8>, String> {
    let mut w = SimWriter::new(wplan.clone());
    let res = f(r, &mut w);
    ctx.counters.add("fault.writer_short_write", w.stats.short_writes);
    ctx.counters.add("fault.writer_interrupted", w.stats.write_interrupts);
    ctx.counters.add("fault.writer_error", w.stats.write_errors);
    match res {
        Ok(()) => Ok(w.out),
        Err(e) => Err(e.to_string()),
    }
}

#[cfg(not(feature = "stateless"))]
fn compare_state_rln(r: &mut rln::public::RLN, model: &IdealTree, probes: &[usize], wplan: &WritePlan, ctx: &mut Ctx) -> Option<Mismatch> {
    let hwm = r.leaves_set();
    if hwm != model.hwm {
        return mm("hwm", format!("leaves_set {} != model {}", hwm, model.hwm));
    }
    match rln_get(r, wplan, ctx, |r, w| r.get_root(w)) {
        Ok(b) => {
            if b != fr_to_le32(&model.root()) {
                return mm("root", format!("get_root bytes {} != model {}", hex(&b), fr_to_json(&model.root())));
            }
        }
        Err(e) => return mm("root", format!("get_root failed: {e}")),
    }
    for &i in probes {
        match rln_get(r, wplan, ctx, |r, w| r.get_leaf(i, w)) {
            Ok(b) => {
                if b != fr_to_le32(&model.get(i)) {
                    return mm("leaf", format!("get_leaf({i}) = {} != model {}", hex(&b), fr_to_json(&model.get(i))));
                }
            }
            Err(e) => return mm("leaf", format!("get_leaf({i}) failed: {e}")),
        }
    }
    if rln_get(r, wplan, ctx, |r, w| r.get_leaf(model.cap(), w)).is_ok() {
        return mm("leaf_oob", format!("get_leaf({}) beyond capacity succeeded", model.cap()));
    }
    let sub: Vec<usize> = if model.cap() <= 16 { probes.to_vec() } else { probes.iter().copied().step_by(3).take(6).collect() };
    for &i in &sub {
        for level in 0..=model.depth {
            match rln_get(r, wplan, ctx, |r, w| r.get_subtree_root(level, i, w)) {
                Ok(b) => {
                    if b != fr_to_le32(&model.node(level, i)) {
                        return mm("subtree_root", format!("get_subtree_root({level},{i}) differs from model"));
                    }
                }
                Err(e) => return mm("subtree_root", format!("get_subtree_root({level},{i}) failed: {e}")),
            }
        }
    }
    None
}

#[cfg(not(feature = "stateless"))]
fn check_proofs_rln(r: &rln::public::RLN, model: &IdealTree, probes: &[usize], wplan: &WritePlan, ctx: &mut Ctx) -> Option<Mismatch> {
    for &i in probes {
        let b = match rln_get(r, wplan, ctx, |r, w| r.get_proof(i, w)) {
            Ok(b) => b,
            Err(e) => return mm("proof_exists", format!("get_proof({i}) failed: {e}")),
        };
        let (sib, bits) = model.path(i);
        let mut want = enc_vec_fr(&sib);
        want.extend_from_slice(&enc_vec_u8(&bits));
        if b != want {
            return mm("proof_bytes", format!("get_proof({i}) bytes differ from the documented layout of the model's path"));
        }
    }
    None
}

#[cfg(not(feature = "stateless"))]
fn empties_rln(r: &rln::public::RLN, wplan: &WritePlan, ctx: &mut Ctx) -> Result<Vec<usize>, String> {
    let b = rln_get(r, wplan, ctx, |r, w| r.get_empty_leaves_indices(w))?;
    if b.len() < 8 {
        return Err(format!("short output {}", hex(&b)));
    }
    let n = u64::from_le_bytes(b[..8].try_into().unwrap()) as usize;
    if b.len() != 8 + 8 * n {
        return Err(format!("length field {n} inconsistent with {} bytes", b.len()));
    }
    Ok((0..n).map(|k| u64::from_le_bytes(b[8 + 8 * k..16 + 8 * k].try_into().unwrap()) as usize).collect())
}

/// Evaluates the clauses of the active property on one node. `Err(panic message)` = a getter
/// panicked.
pub fn evaluate(node: &mut Node, step: &Step, ctx: &mut Ctx) -> Result<Option<Mismatch>, String> {
    let probes = probe_positions(&node.model, &ctx.probes);
    let prop = ctx.prop.to_string();
    // the state clauses are always evaluated first: the proof / empty-list clauses are only
    // meaningful on a node whose state equals the model (otherwise the owner of the state
    // mismatch is reported or the node is rebuilt)
    let want_state = true;
    let want_proofs = prop == "C07";
    let want_empties = prop == "C15" || prop == "C16";
    let want_meta = prop == "C16";
    let mut alterations = 0u64;
    let rot = ctx.step;
    let model = node.model.clone();
    let wplan = step.writer.clone();
    let r = guarded(|| -> Option<Mismatch> {
        macro_rules! tree_checks {
            ($t:expr) => {{
                if want_state {
                    if let Some(m) = compare_state_tree($t, &model, &probes) {
                        return Some(m);
                    }
                }
                if want_meta {
                    if let Some(m) = compare_meta_tree($t, &model) {
                        return Some(m);
                    }
                }
                if want_proofs {
                    if let Some(m) = check_proofs_tree($t, &model, &probes, &mut alterations, rot) {
                        return Some(m);
                    }
                }
                None
            }};
        }
        match &mut node.sut {
            Sut::Full(t) => tree_checks!(&*t),
            Sut::Opt(t) => tree_checks!(&*t),
            #[cfg(feature = "pm")]
            Sut::Pm(t) => tree_checks!(&*t),
            #[cfg(not(feature = "stateless"))]
            Sut::Rln(r) => {
                if want_state {
                    if let Some(m) = compare_state_rln(r, &model, &probes, &wplan, ctx) {
                        return Some(m);
                    }
                }
                if want_meta {
                    match rln_get(r, &wplan, ctx, |r, w| r.get_metadata(w)) {
                        Ok(b) => {
                            if b != model.metadata {
                                return mm("metadata", format!("get_metadata {} != model {}", hex(&b), hex(&model.metadata)));
                            }
                        }
                        Err(e) => return mm("metadata", format!("get_metadata failed: {e}")),
                    }
                }
                if want_proofs {
                    if let Some(m) = check_proofs_rln(r, &model, &probes, &wplan, ctx) {
                        return Some(m);
                    }
                }
                None
            }
            Sut::Gone => mm("gone", "node has no instance".to_string()),
        }
    })?;
    ctx.alterations += alterations;
    if r.is_some() {
        return Ok(r);
    }
    if want_empties {
        let got: Result<Vec<usize>, String> = guarded(|| match &mut node.sut {
            Sut::Full(t) => Ok(t.get_empty_leaves_indices()),
            Sut::Opt(t) => Ok(t.get_empty_leaves_indices()),
            #[cfg(feature = "pm")]
            Sut::Pm(t) => Ok(t.get_empty_leaves_indices()),
            #[cfg(not(feature = "stateless"))]
            Sut::Rln(r) => empties_rln(r, &wplan, ctx),
            Sut::Gone => Err("gone".to_string()),
        })?;
        match got {
            Ok(g) => {
                if let Some(m) = empties_ok(&g, node) {
                    return Ok(Some(m));
                }
            }
            Err(e) => return Ok(mm("empties", format!("get_empty_leaves_indices failed: {e}"))),
        }
    }
    Ok(None)
}

/// C07 taken literally, against the node's OWN state (used when the state already differs from the model because of
/// a misbehaviour another property owns): every probed proof recomputes the node's current root from the node's
/// stored leaf and is accepted by the node's own check.
fn proofs_self_consistent(node: &Node, probes: &[usize]) -> Result<Option<Mismatch>, String> {
    fn chk<T>(t: &T, probes: &[usize]) -> Option<Mismatch>
    where
        T: ZerokitMerkleTree<Hasher = PoseidonHash>,
        T::Proof: ZerokitMerkleProof<Hasher = PoseidonHash, Index = u8>,
    {
        let root = t.root();
        for &i in probes {
            if i >= t.capacity() {
                continue;
            }
            let (leaf, p) = match (t.get(i), t.proof(i)) {
                (Ok(l), Ok(p)) => (l, p),
                _ => return Some(Mismatch { clause: "proof_exists", detail: format!("get({i}) or proof({i}) failed") }),
            };
            if p.compute_root_from(&leaf) != root {
                return Some(Mismatch { clause: "proof_root", detail: format!("proof({i}) does not recompute the tree's current root from the stored leaf (the tree state itself already deviates from the ideal tree)") });
            }
            if !matches!(t.verify(&leaf, &p), Ok(true)) {
                return Some(Mismatch { clause: "proof_verify", detail: format!("verify(get({i}), proof({i})) is not accepted") });
            }
        }
        None
    }
    guarded(|| match &node.sut {
        Sut::Full(t) => chk(t, probes),
        Sut::Opt(t) => chk(t, probes),
        #[cfg(feature = "pm")]
        Sut::Pm(t) => chk(t, probes),
        _ => None,
    })
}

/// Owner of a misbehaving operation on a given node kind: the byte-level API expresses a plain
/// range write through a batch entry point (set_leaves_from), which C08 owns.
pub fn owner_for(kind: &str, op: &Op) -> &'static str {
    if kind.starts_with("rln") && matches!(op, Op::SetRange { .. }) {
        return "C08";
    }
    op.owner()
}

/// Which property owns a mismatch in a given clause.
fn clause_owner(kind: &str, clause: &str, op: &Op) -> &'static str {
    if clause.starts_with("proof") {
        "C07"
    } else if clause == "empties" {
        "C15"
    } else if clause == "metadata" {
        "C16"
    } else {
        owner_for(kind, op)
    }
}

// ------------------------------------------------------------------------------------------------
// Model stepping
// ------------------------------------------------------------------------------------------------

pub enum Expect {
    /// model advanced; the node must reach exactly this state
    Applied,
    /// request not well formed: state must stay as it was
    Rejected,
    /// a backend may reject or apply the in-range part: (state if applied) is the alternative
    Either(Box<IdealTree>),
}

pub fn step_model(model: &mut IdealTree, op: &Op) -> Expect {
    match op {
        Op::Set { i, v } => {
            if model.set(*i, *v) { Expect::Applied } else { Expect::Rejected }
        }
        Op::Delete { i } => {
            if model.delete(*i) { Expect::Applied } else { Expect::Rejected }
        }
        Op::Append { v } => {
            if model.append(*v) { Expect::Applied } else { Expect::Rejected }
        }
        Op::SetRange { start, vals } => {
            if model.set_range(*start, vals) { Expect::Applied } else { Expect::Rejected }
        }
        Op::Batch { start, vals, rem } => {
            let cap = model.cap();
            if vals.is_empty() && rem.is_empty() {
                return Expect::Rejected;
            }
            let fits = matches!(start.checked_add(vals.len()), Some(e) if e <= cap);
            let inr: Vec<usize> = rem.iter().copied().filter(|i| *i < cap).collect();
            let has_oob = inr.len() != rem.len();
            if !fits {
                if vals.is_empty() && !inr.is_empty() {
                    // nothing is written, so `start` (> capacity) designates no position: a
                    // backend may reject the request or apply the removals
                    let mut alt = model.clone();
                    alt.batch(0, &[], &inr);
                    return Expect::Either(Box::new(alt));
                }
                return Expect::Rejected;
            }
            if has_oob {
                // a removal index beyond capacity: reject, or apply the in-range part
                if vals.is_empty() && inr.is_empty() {
                    return Expect::Rejected;
                }
                let mut alt = model.clone();
                alt.batch(*start, vals, &inr);
                return Expect::Either(Box::new(alt));
            }
            match model.batch(*start, vals, rem) {
                BatchOutcome::Applied => Expect::Applied,
                _ => Expect::Rejected,
            }
        }
        Op::Reset => {
            model.reset();
            Expect::Applied
        }
        Op::Init { vals } => {
            if vals.len() > model.cap() {
                // rejected write after the documented reset: either "unchanged" or "reset happened"
                return Expect::Either(Box::new(IdealTree::new(model.depth)));
            }
            model.reset();
            if vals.is_empty() {
                return Expect::Applied;
            }
            model.set_range(0, vals);
            Expect::Applied
        }
        Op::SetMeta { bytes } => {
            model.metadata = bytes.clone();
            Expect::Applied
        }
        Op::Flush | Op::Reopen { .. } => Expect::Applied,
    }
}

// ------------------------------------------------------------------------------------------------
// Runner
// ------------------------------------------------------------------------------------------------

pub struct RunOutcome {
    pub violation: Option<Violation>,
    pub harness_error: Option<String>,
}

fn touched(op: &Op, probes: &mut BTreeSet<usize>) {
    let mut add = |i: usize| {
        if probes.len() < 48 {
            probes.insert(i);
        }
    };
    match op {
        Op::Set { i, .. } | Op::Delete { i } => add(*i),
        Op::SetRange { start, vals } => {
            add(*start);
            if !vals.is_empty() {
                add(start.wrapping_add(vals.len() - 1));
                add(start.wrapping_add(vals.len()));
            }
        }
        Op::Batch { start, vals, rem } => {
            add(*start);
            if !vals.is_empty() {
                add(start.wrapping_add(vals.len() - 1));
            }
            for r in rem.iter().take(6) {
                add(*r);
            }
        }
        _ => {}
    }
}

pub fn run_trace(trace: &Trace, ctx: &mut Ctx) -> RunOutcome {
    let run_dir = ctx.scratch.to_path_buf();
    let _ = std::fs::remove_dir_all(&run_dir);
    let _ = std::fs::create_dir_all(&run_dir);
    let out = run_trace_inner(trace, ctx, &run_dir);
    let _ = std::fs::remove_dir_all(&run_dir);
    out
}

fn run_trace_inner(trace: &Trace, ctx: &mut Ctx, run_dir: &std::path::Path) -> RunOutcome {
    let mut nodes: Vec<Node> = Vec::new();
    if let Some((k, sticky)) = ctx.fault {
        if sticky {
            zerokit_utils::verif::arm(&[], Some(k), None);
        } else {
            zerokit_utils::verif::arm(&[k], None, None);
        }
        ctx.fault_outcome = "not_reached".to_string();
    }
    for k in &trace.nodes {
        let created = guarded(|| Node::create(k, trace.depth, &trace.store, run_dir));
        if ctx.fault.is_some() && zerokit_utils::verif::write_counters().1 > 0 {
            return storage_fault_during_create(k, created, trace, ctx, run_dir);
        }
        match created {
            Ok(Ok(n)) => nodes.push(n),
            Ok(Err(e)) => return herr(format!("create {k}: {e}")),
            Err(p) => return herr(format!("create {k} panicked: {p}")),
        }
    }
    let prop = ctx.prop.to_string();
    for (si, step) in trace.steps.iter().enumerate() {
        ctx.step = si;
        touched(&step.op, &mut ctx.probes);
        ctx.counters.inc(&format!("op.{}", step.op.kind()));
        for ni in 0..nodes.len() {
            let node = &mut nodes[ni];
            let kind = node.kind.clone();
            if matches!(step.op, Op::Reopen { .. } | Op::Flush) && !node.persistent() {
                continue;
            }
            // the trait level has no "reset this stored tree" operation: a path-backed trait-level
            // node sits these out (its own model is simply not stepped)
            if kind == "pmp" && matches!(step.op, Op::Reset | Op::Init { .. }) {
                ctx.counters.inc("skipped.reset_on_trait_level_store");
                continue;
            }
            let is_rln = kind.starts_with("rln");
            let owner = owner_for(&kind, &step.op);
            // removal indices are single bytes at the byte level
            let inexpressible = is_rln && matches!(&step.op, Op::Batch { rem, .. } if rem.iter().any(|r| *r > 255));
            let flags_matter = matches!(prop.as_str(), "C15" | "C16");
            let sigs: Vec<&str> = matching_signatures(&kind, &step.op, &node.model)
                .into_iter()
                .filter(|s| ctx.known.contains(*s))
                // a shape that only mis-sets the empty-leaf flags is executed for real unless the profile reads them
                .filter(|s| *s != "pm_batch_mixed_flags" || flags_matter)
                .collect();
            if let Some(sig) = sigs.first() {
                if signature_skips(sig) {
                    ctx.counters.inc(&format!("substituted.{}", sig));
                    continue;
                }
            }
            let pre = node.model.clone();
            let expect = step_model(&mut node.model, &step.op);
            if !sigs.is_empty() || inexpressible {
                if let Some(sig) = sigs.first() {
                    ctx.counters.inc(&format!("substituted.{}", sig));
                } else {
                    ctx.counters.inc("substituted.rln_inexpressible");
                }
                match expect {
                    Expect::Applied => {}
                    Expect::Rejected => {
                        // not well formed: nothing to bring about
                        node.model = pre.clone();
                        continue;
                    }
                    Expect::Either(alt) => node.model = *alt,
                }
                if let Err(e) = substitute(node, &pre, &step.op) {
                    return herr(format!("substitution failed at step {si} on {kind}: {e}"));
                }
                continue;
            }
            let mut applied: Option<Result<Result<(), String>, String>> = None;
            // a hard reader error first (byte-level node): must be reported and change nothing
            if is_rln && step.reader.fail_at.is_some() {
                let stepped = std::mem::replace(&mut node.model, pre.clone());
                let r = guarded(|| node.apply(step, &step.reader, &trace.store, ctx));
                match r {
                    Ok(Ok(())) => {
                        // the error position lies beyond what the call reads: it went through
                        ctx.counters.inc("reader_error_not_reached");
                        node.model = stepped;
                        applied = Some(Ok(Ok(())));
                    }
                    Ok(Err(_)) => {
                        ctx.counters.inc("reader_error_reported");
                        let mut ev = evaluate(node, step, ctx);
                        if matches!(step.op, Op::Init { .. }) && matches!(ev, Ok(Some(_))) {
                            // documented as "reset, then write": a failure while reading the
                            // leaves may leave the tree reset (the retry below resets it anyway)
                            let keep = std::mem::replace(&mut node.model, IdealTree::new(pre.depth));
                            let ev2 = evaluate(node, step, ctx);
                            if matches!(ev2, Ok(None)) {
                                ev = ev2;
                                ctx.counters.inc("init_reset_before_read_error");
                            } else {
                                node.model = keep;
                            }
                        }
                        match ev {
                            Ok(None) => {}
                            Ok(Some(m)) => {
                                if owner == prop {
                                    return viol(&prop, &kind, si, &step.op, "changed_after_reader_error", m.detail);
                                }
                                ctx.counters.inc("foreign_mismatch");
                                if let Err(e) = node.rebuild_from_model(&trace.store, run_dir) {
                                    return herr(format!("rebuild failed: {e}"));
                                }
                            }
                            Err(p) => {
                                if owner == prop {
                                    return viol(&prop, &kind, si, &step.op, "getter_panic_after_reader_error", p);
                                }
                                ctx.counters.inc("foreign_panics");
                                if let Err(e) = node.rebuild_from_model(&trace.store, run_dir) {
                                    return herr(format!("rebuild failed: {e}"));
                                }
                            }
                        }
                        node.model = stepped; // the client retries below with a healthy stream
                    }
                    Err(p) => {
                        if owner == prop {
                            return viol(&prop, &kind, si, &step.op, "panic_on_reader_error", p);
                        }
                        ctx.counters.inc("foreign_panics");
                        if let Err(e) = node.rebuild_from_model(&trace.store, run_dir) {
                            return herr(format!("rebuild failed: {e}"));
                        }
                        node.model = stepped;
                    }
                }
            }
            let res = match applied {
                Some(r) => r,
                None => {
                    let mut plan = step.reader.clone();
                    plan.fail_at = None;
                    guarded(|| node.apply(step, &plan, &trace.store, ctx))
                }
            };
            if ctx.fault.is_some() && zerokit_utils::verif::write_counters().1 > 0 {
                // the injected storage failure happened inside this call
                let mut cands = vec![pre.clone()];
                match expect {
                    Expect::Applied => cands.push(node.model.clone()),
                    Expect::Rejected => {}
                    Expect::Either(alt) => cands.push(*alt),
                }
                return storage_fault_during_op(node, cands, res, step, si, trace, ctx);
            }
            ctx.log.add_u64(si as u64);
            ctx.log.add(kind.as_bytes());
            let returned_ok = match &res {
                Err(p) => {
                    ctx.log.add(b"P");
                    if owner == prop {
                        return viol(&prop, &kind, si, &step.op, "panic", p.clone());
                    }
                    ctx.counters.inc("foreign_panics");
                    match expect {
                        Expect::Applied => {}
                        Expect::Rejected => node.model = pre.clone(),
                        Expect::Either(alt) => node.model = *alt,
                    }
                    if let Err(e) = node.rebuild_from_model(&trace.store, run_dir) {
                        return herr(format!("rebuild after foreign panic failed: {e}"));
                    }
                    continue;
                }
                Ok(Ok(())) => {
                    ctx.log.add(b"O");
                    true
                }
                Ok(Err(_)) => {
                    ctx.log.add(b"E");
                    false
                }
            };
            if matches!(step.op, Op::Reopen { .. }) && !returned_ok {
                let d = match res {
                    Ok(Err(e)) => e,
                    _ => String::new(),
                };
                if prop == "C16" {
                    return viol(&prop, &kind, si, &step.op, "reopen_failed", d);
                }
                ctx.counters.inc("foreign_mismatch");
                if let Err(e) = node.rebuild_from_model(&trace.store, run_dir) {
                    return herr(format!("rebuild after failed reopen: {e}"));
                }
                continue;
            }
            // decide which model state the node must be in
            let mut alt_model: Option<IdealTree> = None;
            match expect {
                Expect::Applied => {}
                Expect::Rejected => {
                    node.model = pre.clone();
                }
                Expect::Either(alt) => {
                    node.model = pre.clone();
                    alt_model = Some(*alt);
                }
            }
            // Observation perturbs: reading the whole state after every step would hide anything a backend defers until the next
            // read (recomputation on demand, a dirty mark lost between two writes). One run in three therefore looks only now and
            // then - always after the last step, and whenever the outcome has to be read off the state (Either).
            let lazy_run = prop != "C16" && ctx.fault.is_none() && (trace.seed.wrapping_mul(0x9e37_79b9_7f4a_7c15) >> 61) % 3 == 0;
            if lazy_run && alt_model.is_none() && si + 1 != trace.steps.len() && !matches!(step.op, Op::Reopen { .. }) {
                let look = (trace.seed ^ (si as u64).wrapping_mul(0xd6e8_feb8_6659_fd93)).wrapping_mul(0x9e37_79b9_7f4a_7c15) >> 62 == 0;
                if !look {
                    ctx.counters.inc("steps_not_observed");
                    ctx.log.add_u64(node.model.digest());
                    continue;
                }
            }
            let mut ev = evaluate(node, step, ctx);
            if let (Ok(Some(_)), Some(alt)) = (&ev, alt_model.take()) {
                let keep = std::mem::replace(&mut node.model, alt);
                let ev2 = evaluate(node, step, ctx);
                if matches!(ev2, Ok(None)) {
                    ev = ev2;
                } else {
                    node.model = keep;
                }
            }
            match ev {
                Err(p) => {
                    let o = match prop.as_str() {
                        "C07" => "C07",
                        "C15" => "C15",
                        _ => owner,
                    };
                    if o == prop {
                        return viol(&prop, &kind, si, &step.op, "getter_panic", p);
                    }
                    ctx.counters.inc("foreign_panics");
                    if let Err(e) = node.rebuild_from_model(&trace.store, run_dir) {
                        return herr(format!("rebuild after getter panic failed: {e}"));
                    }
                }
                Ok(Some(m)) => {
                    let o = clause_owner(&kind, m.clause, &step.op);
                    if o == prop {
                        let clause = if returned_ok { m.clause.to_string() } else { format!("{}_after_err", m.clause) };
                        return viol(&prop, &kind, si, &step.op, &clause, m.detail);
                    }
                    ctx.counters.inc("foreign_mismatch");
                    if prop == "C07" && !m.clause.starts_with("proof") {
                        let probes = probe_positions(&node.model, &ctx.probes);
                        match proofs_self_consistent(node, &probes) {
                            Ok(Some(pm)) => return viol(&prop, &kind, si, &step.op, pm.clause, pm.detail),
                            Err(p) => return viol(&prop, &kind, si, &step.op, "getter_panic", p),
                            Ok(None) => {}
                        }
                    }
                    if let Err(e) = node.rebuild_from_model(&trace.store, run_dir) {
                        return herr(format!("rebuild after foreign mismatch failed: {e}"));
                    }
                }
                Ok(None) => {
                    ctx.counters.inc("oracle_evaluations");
                }
            }
            ctx.log.add_u64(node.model.digest());
        }
        if let Some(n) = nodes.first() {
            ctx.states.insert(n.model.digest());
        }
    }
    drop(nodes);
    if ctx.fault.is_some() {
        zerokit_utils::verif::disarm();
    }
    RunOutcome { violation: None, harness_error: None }
}

// ------------------------------------------------------------------------------------------------
// C16, layer L1: what must hold when a storage write / flush fails inside an operation
// ------------------------------------------------------------------------------------------------

fn fired_kind() -> String {
    let (_seen, _fired, log) = zerokit_utils::verif::disarm();
    for (_k, op, failed) in log {
        if failed {
            return format!("{:?}", op).to_lowercase();
        }
    }
    "unknown".to_string()
}

fn storage_fault_during_create(
    kind: &str,
    created: Result<Result<Node, String>, String>,
    trace: &Trace,
    ctx: &mut Ctx,
    run_dir: &std::path::Path,
) -> RunOutcome {
    let fk = fired_kind();
    ctx.fault_outcome = format!("fired:{fk}");
    ctx.counters.inc(&format!("fault.storage_{fk}_failed"));
    ctx.counters.inc("reach.failure_during_creation");
    let op = Op::Reopen { flush: false };
    let prop = ctx.prop.to_string();
    match created {
        Err(p) => return viol(&prop, kind, 0, &op, "create_panic_on_storage_failure", p),
        Ok(Ok(n)) => {
            drop(n);
            return viol(&prop, kind, 0, &op, "create_storage_failure_not_reported", format!("creation returned Ok although storage write ({fk}) failed"));
        }
        Ok(Err(_)) => {}
    }
    // nothing was acknowledged; a later open must at least not crash, and must work
    if let Some(p) = path_of(kind, run_dir) {
        wait_unlocked(&p);
    }
    match guarded(|| Node::create(kind, trace.depth, &trace.store, run_dir)) {
        Err(p) => viol(&prop, kind, 0, &op, "open_panic_after_failed_create", p),
        Ok(Err(e)) => viol(&prop, kind, 0, &op, "open_failed_after_failed_create", e),
        Ok(Ok(mut n)) => {
            ctx.counters.inc("oracle_evaluations");
            // liveness: the location is usable
            if let Err(e) = n.prim_set(0, Fr::from(5u64)) {
                return viol(&prop, kind, 0, &op, "unusable_after_failed_create", e);
            }
            RunOutcome { violation: None, harness_error: None }
        }
    }
}

fn path_of(kind: &str, run_dir: &std::path::Path) -> Option<std::path::PathBuf> {
    match kind {
        "pmp" => Some(run_dir.join("pmp")),
        "rlnp" => Some(run_dir.join("rlnp")),
        _ => None,
    }
}

fn storage_fault_during_op(
    node: &mut Node,
    cands: Vec<IdealTree>,
    res: Result<Result<(), String>, String>,
    step: &Step,
    si: usize,
    trace: &Trace,
    ctx: &mut Ctx,
) -> RunOutcome {
    let fk = fired_kind();
    ctx.fault_outcome = format!("fired:{fk}");
    ctx.counters.inc(&format!("fault.storage_{fk}_failed"));
    ctx.counters.inc(&format!("reach.failure_during_{}", step.op.kind()));
    let prop = ctx.prop.to_string();
    let kind = node.kind.clone();
    match res {
        Err(p) => return viol(&prop, &kind, si, &step.op, "panic_on_storage_failure", p),
        Ok(Ok(())) => {
            return viol(&prop, &kind, si, &step.op, "storage_failure_not_reported",
                format!("the call returned Ok although a storage write ({fk}) failed during it"));
        }
        Ok(Err(_)) => {}
    }
    let pre = cands[0].clone();
    // faults have stopped: flush, drop, reopen
    if !node.is_gone() {
        match guarded(|| node.prim(Op::Flush)) {
            Err(p) => return viol(&prop, &kind, si, &step.op, "flush_panic_after_faults_stopped", p),
            Ok(Err(e)) => return viol(&prop, &kind, si, &step.op, "flush_failed_after_faults_stopped", e),
            Ok(Ok(())) => {}
        }
    }
    node.model = pre.clone();
    match guarded(|| node.reopen(false, &trace.store)) {
        Err(p) => return viol(&prop, &kind, si, &step.op, "reopen_panic_after_storage_failure", p),
        Ok(Err(e)) => return viol(&prop, &kind, si, &step.op, "reopen_failed_after_storage_failure", e),
        Ok(Ok(())) => {}
    }
    // every update acknowledged before the failed call is still there; positions the failed call
    // touches hold their old or their new value
    let positions: Vec<usize> = probe_positions(&pre, &ctx.probes);
    for &i in &positions {
        let got = match guarded(|| node.read_leaf(i)) {
            Err(p) => return viol(&prop, &kind, si, &step.op, "read_panic_after_storage_failure", p),
            Ok(Err(e)) => return viol(&prop, &kind, si, &step.op, "read_failed_after_storage_failure", e),
            Ok(Ok(v)) => v,
        };
        if !cands.iter().any(|c| c.get(i) == got) {
            let clause = if cands.iter().all(|c| c.get(i) == pre.get(i)) { "acknowledged_update_lost" } else { "garbage_in_touched_position" };
            return viol(&prop, &kind, si, &step.op, clause,
                format!("after failed {} and reopen, leaf {i} = {} but acknowledged value is {}", step.op.kind(), fr_to_json(&got), fr_to_json(&pre.get(i))));
        }
    }
    let hwm = node.observed_hwm();
    if !cands.iter().any(|c| c.hwm == hwm) {
        return viol(&prop, &kind, si, &step.op, "leaf_count_lost", format!("leaves_set {} after reopen, acknowledged {}", hwm, pre.hwm));
    }
    match node.read_meta() {
        Ok(m) => {
            if !cands.iter().any(|c| c.metadata == m) {
                return viol(&prop, &kind, si, &step.op, "metadata_lost", format!("metadata {} after reopen, acknowledged {}", hex(&m), hex(&pre.metadata)));
            }
        }
        Err(e) => return viol(&prop, &kind, si, &step.op, "read_failed_after_storage_failure", e),
    }
    ctx.counters.inc("oracle_evaluations");
    // bounded liveness once faults have stopped: the next operations and the next flush succeed
    let cap = pre.cap();
    for j in 0..5usize {
        let i = (si + 3 * j) % cap;
        let v = Fr::from(900_000 + (si * 7 + j) as u64);
        match guarded(|| node.prim_set(i, v)) {
            Err(p) => return viol(&prop, &kind, si, &step.op, "panic_after_faults_stopped", p),
            Ok(Err(e)) => return viol(&prop, &kind, si, &step.op, "write_failed_after_faults_stopped", format!("set({i}) after recovery: {e}")),
            Ok(Ok(())) => {}
        }
        match node.read_leaf(i) {
            Ok(g) if g == v => {}
            other => return viol(&prop, &kind, si, &step.op, "readback_after_faults_stopped", format!("set({i}) does not read back: {:?}", other.map(|x| fr_to_json(&x)))),
        }
    }
    match guarded(|| node.prim(Op::Flush)) {
        Ok(Ok(())) => {}
        other => return viol(&prop, &kind, si, &step.op, "flush_failed_after_faults_stopped", format!("{:?}", other)),
    }
    ctx.counters.inc("reach.recovered_and_continued");
    RunOutcome { violation: None, harness_error: None }
}

fn herr(msg: String) -> RunOutcome {
    RunOutcome { violation: None, harness_error: Some(msg) }
}

/// Signatures whose substitution is "this node sits the step out".
fn signature_skips(sig: &str) -> bool {
    matches!(sig, "rln_reset_detaches_storage")
}

fn viol(prop: &str, node: &str, step: usize, op: &Op, clause: &str, detail: String) -> RunOutcome {
    RunOutcome {
        violation: Some(Violation {
            prop: prop.to_string(),
            node: node.to_string(),
            step,
            op_kind: op.kind().to_string(),
            clause: clause.to_string(),
            detail,
        }),
        harness_error: None,
    }
}

/// Brings `node` from model state `pre` to `node.model` with single set/delete calls.
fn substitute(node: &mut Node, pre: &IdealTree, op: &Op) -> Result<(), String> {
    match op {
        Op::Batch { start, vals, rem } => {
            let cap = pre.cap();
            for i in rem {
                if *i < pre.hwm && *i < cap {
                    node.prim_delete(*i)?;
                }
            }
            for (k, v) in vals.iter().enumerate() {
                node.prim_set(start + k, *v)?;
            }
            Ok(())
        }
        Op::SetRange { start, vals } => {
            for (k, v) in vals.iter().enumerate() {
                node.prim_set(start + k, *v)?;
            }
            Ok(())
        }
        Op::Init { vals } => {
            node.prim(Op::Reset)?;
            for (k, v) in vals.iter().enumerate() {
                node.prim_set(k, *v)?;
            }
            Ok(())
        }
        Op::Append { v } => {
            let i = pre.hwm;
            node.prim_set(i, *v)
        }
        _ => Err(format!("no substitution for {}", op.kind())),
    }
}

// ------------------------------------------------------------------------------------------------
// Generator
// ------------------------------------------------------------------------------------------------

pub fn gen_value(rng: &mut Prng, uniq: &mut u64) -> Fr {
    match rng.weighted(&[1, 2, 2, 8, 6]) {
        0 => Fr::from(0u64),
        1 => Fr::from(1u64),
        2 => fr_minus_one(),
        3 => {
            *uniq += 1;
            Fr::from(1000 + *uniq)
        }
        _ => fr_from_le(&rng.bytes(32)),
    }
}

pub fn gen_pos(rng: &mut Prng, m: &IdealTree) -> usize {
    let cap = m.cap();
    let half = cap / 2;
    let cands = [
        0,
        1,
        half.saturating_sub(1),
        half,
        cap - 1,
        cap,
        cap + 1,
        m.hwm.saturating_sub(1),
        m.hwm,
        m.hwm + 1,
    ];
    match rng.weighted(&[6, 10, 1]) {
        0 => *rng.pick(&cands),
        1 => rng.usize_below(cap),
        _ => rng.usize_below(2 * cap + 2),
    }
}

fn gen_vals(rng: &mut Prng, n: usize, uniq: &mut u64) -> Vec<Fr> {
    (0..n).map(|_| gen_value(rng, uniq)).collect()
}

fn gen_range(rng: &mut Prng, m: &IdealTree, uniq: &mut u64) -> (usize, Vec<Fr>) {
    let cap = m.cap();
    let start = match rng.weighted(&[3, 3, 1]) {
        0 => gen_pos(rng, m),
        1 => rng.usize_below(cap),
        _ => 0,
    };
    let room = cap.saturating_sub(start);
    let len = match rng.weighted(&[1, 3, 4, 2, 2, 1]) {
        0 => 0,
        1 => 1 + rng.usize_below(3),
        2 => rng.usize_below(room.min(12) + 1),
        3 => room,                                  // up to the end
        4 => {
            // reach or cross the next power-of-two boundary above start
            let mut b = 1usize;
            while b <= start {
                b <<= 1;
            }
            (b - start + rng.usize_below(3)).min(room + 1)
        }
        _ => room + 1,                              // one too many
    };
    let len = len.min(40);
    // pmtree's batch insertion walks every leaf of the right half below the written range: at depth 20 a
    // multi-leaf range in the right part of the tree takes ~10 s, so deep trees keep ranges on the left
    // (a single-leaf range goes through the same batch insertion and allocates gigabytes there: measured 2.2 GB resident for
    // set_range(524287, [v]) at depth 20 - so every range of a deep tree stays on the left; single writes go anywhere)
    let start = if m.depth >= 16 && len >= 1 && start >= (1 << 14) { start % (1 << 14) } else { start };
    (start, gen_vals(rng, len, uniq))
}

fn gen_removals(rng: &mut Prng, m: &IdealTree, start: usize, n: usize) -> Vec<usize> {
    let cap = m.cap();
    let end = start + n;
    let shape = rng.weighted(&[3, 3, 3, 3, 3, 2, 2, 1, 2]);
    let mut v: Vec<usize> = match shape {
        0 => Vec::new(),
        1 => (0..start.min(cap)).filter(|_| rng.chance(1, 2)).collect(),            // before
        2 => (start..end.min(cap)).filter(|_| rng.chance(1, 2)).collect(),          // inside
        3 => (end..cap.min(end + 6)).filter(|_| rng.chance(1, 2)).collect(),        // after
        4 => (0..cap.min(end + 4)).filter(|_| rng.chance(1, 3)).collect(),          // interleaved
        5 => (start..end.min(cap)).collect(),                                       // equal to the written range
        6 => (0..m.hwm.min(cap)).filter(|_| rng.chance(1, 3)).collect(),            // among written
        7 => vec![cap, cap + 1],                                                    // out of capacity
        _ => {
            let k = 1 + rng.usize_below(3);
            (0..k).map(|_| gen_pos(rng, m)).collect()
        }
    };
    if v.len() > 12 {
        v.truncate(12);
    }
    if m.depth >= 16 {
        // a removal batch is rewritten as one range over [smallest, largest]: keep that span on the left of a deep tree
        for i in v.iter_mut() {
            if *i < cap && *i >= (1 << 14) {
                *i %= 1 << 14;
            }
        }
    }
    if rng.chance(1, 5) && v.len() > 1 {
        // unsorted with a duplicate
        let d = v[0];
        v.push(d);
        let k = rng.usize_below(v.len());
        v.swap(0, k);
    }
    v
}

pub struct GenCfg {
    /// allow the "large batch" profile: depth 11-12, few steps, range / batch writes of hundreds to thousands of leaves
    pub big: bool,
    pub prop: String,
    pub allow_rln: bool,
    pub allow_pm: bool,
    pub allow_reopen: bool,
    pub max_steps: usize,
    pub deep: bool,
}

/// Large-batch profile: storage and recomputation paths that only a write of many leaves at once reaches.
fn generate_big(seed: u64, g: &GenCfg) -> Trace {
    let mut rng = Prng::new(seed ^ 0xb16);
    let depth = 11 + rng.usize_below(2);
    let mut nodes: Vec<String> = vec!["full".into(), "opt".into()];
    let reopen = g.allow_reopen && g.allow_pm && rng.chance(1, 2);
    if g.allow_pm {
        nodes.push(if reopen { "pmp".into() } else { "pm".into() });
    }
    let store = StoreCfg::gen(&mut rng);
    let mut m = IdealTree::new(depth);
    let mut uniq = 0u64;
    let mut steps = Vec::new();
    let n = 2 + rng.usize_below(4);
    for _ in 0..n {
        let cap = m.cap();
        let op = match rng.weighted(&[5, 3, 2, 2, 1]) {
            0 => {
                let len = *rng.pick(&[47usize, 64, 65, 100, 128, 129, 255, 256, 257, 300, 512, 820, 1000, 1024, 1639, 2048, 3000]);
                let start = rng.usize_below(cap - len.min(cap - 1));
                Op::SetRange { start, vals: (0..len.min(cap - start)).map(|k| { uniq += 1; Fr::from(5000 + uniq + k as u64) }).collect() }
            }
            1 => {
                let len = *rng.pick(&[63usize, 130, 256, 500, 1025, 1700, 2500]);
                let start = rng.usize_below(cap - len.min(cap - 1));
                Op::Batch { start, vals: (0..len.min(cap - start)).map(|k| { uniq += 1; Fr::from(9000 + uniq + k as u64) }).collect(), rem: vec![] }
            }
            2 => Op::Set { i: gen_pos(&mut rng, &m), v: gen_value(&mut rng, &mut uniq) },
            3 => Op::Delete { i: gen_pos(&mut rng, &m) },
            _ => {
                if reopen { Op::Reopen { flush: rng.chance(1, 2) } } else { Op::Append { v: gen_value(&mut rng, &mut uniq) } }
            }
        };
        step_model(&mut m, &op);
        steps.push(Step::plain(op));
    }
    Trace { prop: g.prop.clone(), seed, depth, nodes, store, steps }
}

pub fn generate(seed: u64, g: &GenCfg) -> Trace {
    if g.big && seed % 40 == 7 {
        return generate_big(seed, g);
    }
    let mut rng = Prng::new(seed);
    let depth = if rng.chance(1, 10) {
        // middle depths in every tier (cheap for every backend); 16 and 20 only when `deep` (pmtree is slow there)
        if g.deep { *rng.pick(&[7usize, 8, 9, 10, 13, 16, 20, 20]) } else { *rng.pick(&[7usize, 8, 9, 10, 13]) }
    } else {
        [1usize, 2, 2, 3, 3, 3, 4, 4, 4, 5, 5, 6][rng.usize_below(12)]
    };
    let mut nodes: Vec<String> = vec!["full".into(), "opt".into()];
    let want_reopen = g.allow_reopen && g.allow_pm && rng.chance(1, 2);
    if g.allow_pm {
        nodes.push(if want_reopen { "pmp".into() } else { "pm".into() });
    }
    if g.allow_rln && rng.chance(1, 3) {
        nodes.push(if want_reopen && g.allow_pm { "rlnp".into() } else { "rln".into() });
    }
    let store = StoreCfg::gen(&mut rng);
    let nsteps = 3 + rng.usize_below(g.max_steps.saturating_sub(3).max(1));
    // swarm: per-run operation weights (some kinds switched off)
    // order: set delete append set_range batch reset init reopen flush set_meta
    let mut w: [u32; 10] = [10, 6, 6, 8, 8, 1, 1, 0, 0, 0];
    match g.prop.as_str() {
        "C06" => {
            w[4] = 2;
            w[6] = 1;
        }
        "C08" => {
            w[4] = 16;
            w[6] = 3;
        }
        "C15" => {
            w[4] = 8;
        }
        _ => {}
    }
    if want_reopen {
        w[7] = 4;
        w[8] = 1;
    }
    for k in 0..7 {
        if rng.chance(1, 5) {
            w[k] = 0;
        }
    }
    if w.iter().take(5).all(|x| *x == 0) {
        w[0] = 5;
    }
    let faulty_io = rng.chance(1, 2);
    let mut m = IdealTree::new(depth);
    let mut uniq = 0u64;
    let mut steps = Vec::with_capacity(nsteps);
    for _ in 0..nsteps {
        let op = match rng.weighted(&w) {
            0 => Op::Set { i: gen_pos(&mut rng, &m), v: gen_value(&mut rng, &mut uniq) },
            1 => Op::Delete { i: gen_pos(&mut rng, &m) },
            2 => Op::Append { v: gen_value(&mut rng, &mut uniq) },
            3 => {
                let (start, vals) = gen_range(&mut rng, &m, &mut uniq);
                Op::SetRange { start, vals }
            }
            4 => {
                let (start, vals) = gen_range(&mut rng, &m, &mut uniq);
                let rem = gen_removals(&mut rng, &m, start, vals.len());
                Op::Batch { start, vals, rem }
            }
            5 => Op::Reset,
            6 => {
                let n = rng.usize_below(m.cap().min(10) + 2);
                Op::Init { vals: gen_vals(&mut rng, n, &mut uniq) }
            }
            7 => Op::Reopen { flush: rng.chance(2, 3) },
            8 => Op::Flush,
            _ => match rng.weighted(&[3, 2, 5, 1]) {
                0 => Op::SetMeta { bytes: Vec::new() },
                1 => Op::SetMeta { bytes: b"block:1234".to_vec() },
                3 => Op::SetMeta { bytes: { let n = *rng.pick(&[255usize, 256, 4096, 70_000]); rng.bytes(n) } },
                _ => {
                    let n = 1 + rng.usize_below(20);
                    Op::SetMeta { bytes: rng.bytes(n) }
                }
            },
        };
        step_model(&mut m, &op);
        let mut st = Step::plain(op);
        if faulty_io && rng.chance(1, 2) {
            st.reader = ReadPlan::benign(&mut rng);
            if rng.chance(1, 6) {
                st.reader.fail_at = Some(rng.usize_below(40));
            }
        }
        if faulty_io && rng.chance(1, 3) {
            st.writer = WritePlan::benign(&mut rng);
        }
        st.shape = rng.below(2) as u8;
        steps.push(st);
    }
    // One run in four ends with a tree that *looks* new without being new - every written leaf removed again, so the root is the
    // empty root while the leaf count and the per-position flags are not those of a fresh tree - followed by a reset, a
    // re-initialisation or plain further writes.
    let mut r2 = Prng::new(seed ^ 0xe3b7_11aa);
    if r2.chance(1, 4) && depth <= 10 {
        let mut tail: Vec<Op> = Vec::new();
        if m.leaves.is_empty() {
            let i = r2.usize_below(m.cap().min(6));
            tail.push(Op::Set { i, v: Fr::from(7000 + r2.below(50)) });
        }
        let mut sim = m.clone();
        for op in &tail {
            step_model(&mut sim, op);
        }
        if sim.leaves.len() <= 8 {
            let idx: Vec<usize> = sim.leaves.keys().copied().collect();
            if idx.len() > 1 && idx.iter().all(|i| *i < 256) && r2.chance(1, 3) {
                tail.push(Op::Batch { start: 0, vals: Vec::new(), rem: idx });
            } else {
                for i in idx {
                    tail.push(Op::Delete { i });
                }
            }
            match r2.below(4) {
                0 => tail.push(Op::Reset),
                1 => {
                    let n = r2.usize_below(3);
                    tail.push(Op::Init { vals: (0..n).map(|k| Fr::from(7100 + k as u64)).collect() });
                }
                _ => {}
            }
            tail.push(Op::Append { v: Fr::from(7200 + r2.below(50)) });
            if r2.chance(1, 2) {
                tail.push(Op::Set { i: r2.usize_below(m.cap()), v: Fr::from(7300 + r2.below(50)) });
            }
        }
        for op in tail {
            step_model(&mut m, &op);
            let mut st = Step::plain(op);
            st.shape = r2.below(2) as u8;
            steps.push(st);
        }
    }
    Trace { prop: g.prop.clone(), seed, depth, nodes, store, steps }
}

// ------------------------------------------------------------------------------------------------
// Shrinking
// ------------------------------------------------------------------------------------------------

pub fn shrink(trace: &Trace, class: &str, known: &HashSet<String>, scratch: &std::path::Path, budget: usize) -> (Trace, usize) {
    let mut best = trace.clone();
    let mut used = 0usize;
    let mut fails = |t: &Trace, used: &mut usize| -> bool {
        *used += 1;
        let mut c = Ctx::new(&t.prop, known, scratch);
        let out = run_trace(t, &mut c);
        matches!(out.violation, Some(v) if v.class() == class)
    };
    // 1. cut everything after the failing step is implicit (run stops there); drop nodes
    let vnode = class.split('|').nth(1).unwrap_or("").to_string();
    if best.nodes.len() > 1 {
        let mut t = best.clone();
        t.nodes.retain(|n| *n == vnode);
        if !t.nodes.is_empty() && fails(&t, &mut used) {
            best = t;
        }
    }
    // 2. ddmin over steps
    let mut chunk = (best.steps.len() / 2).max(1);
    while chunk >= 1 && used < budget {
        let mut i = 0;
        let mut progressed = false;
        while i < best.steps.len() && used < budget {
            let mut t = best.clone();
            let end = (i + chunk).min(t.steps.len());
            t.steps.drain(i..end);
            if !t.steps.is_empty() && fails(&t, &mut used) {
                best = t;
                progressed = true;
            } else {
                i += chunk;
            }
        }
        if chunk == 1 && !progressed {
            break;
        }
        chunk = if chunk > 1 { chunk / 2 } else { 1 };
    }
    // 3. per-step simplification
    let mut si = 0;
    while si < best.steps.len() && used < budget {
        let cands = simplify_step(&best.steps[si]);
        for c in cands {
            if used >= budget {
                break;
            }
            let mut t = best.clone();
            t.steps[si] = c;
            if fails(&t, &mut used) {
                best = t;
            }
        }
        si += 1;
    }
    // 4. smaller depth
    for d in 1..best.depth {
        if used >= budget {
            break;
        }
        let mut t = best.clone();
        t.depth = d;
        if fails(&t, &mut used) {
            best = t;
            break;
        }
    }
    (best, used)
}

fn simplify_step(s: &Step) -> Vec<Step> {
    let mut out = Vec::new();
    if !s.reader.is_clean() || s.writer != WritePlan::clean() || s.shape != 0 {
        let mut c = s.clone();
        c.reader = ReadPlan::clean();
        c.writer = WritePlan::clean();
        c.shape = 0;
        out.push(c);
    }
    let small = |v: &Fr, k: u64| -> Option<Fr> {
        let t = Fr::from(k);
        if *v != t { Some(t) } else { None }
    };
    match &s.op {
        Op::Set { i, v } => {
            if let Some(t) = small(v, 7) {
                out.push(Step { op: Op::Set { i: *i, v: t }, ..s.clone() });
            }
            if *i > 0 {
                out.push(Step { op: Op::Set { i: i / 2, v: *v }, ..s.clone() });
            }
        }
        Op::Append { v } => {
            if let Some(t) = small(v, 7) {
                out.push(Step { op: Op::Append { v: t }, ..s.clone() });
            }
        }
        Op::SetRange { start, vals } => {
            if vals.len() > 1 {
                out.push(Step { op: Op::SetRange { start: *start, vals: vals[..vals.len() - 1].to_vec() }, ..s.clone() });
                out.push(Step { op: Op::SetRange { start: *start, vals: vals[..vals.len() / 2].to_vec() }, ..s.clone() });
            }
            let simple: Vec<Fr> = (0..vals.len()).map(|k| Fr::from(11 + k as u64)).collect();
            if simple != *vals {
                out.push(Step { op: Op::SetRange { start: *start, vals: simple }, ..s.clone() });
            }
            if *start > 0 {
                out.push(Step { op: Op::SetRange { start: 0, vals: vals.clone() }, ..s.clone() });
            }
        }
        Op::Batch { start, vals, rem } => {
            if vals.len() > 1 {
                out.push(Step { op: Op::Batch { start: *start, vals: vals[..vals.len() - 1].to_vec(), rem: rem.clone() }, ..s.clone() });
            }
            for k in 0..rem.len() {
                let mut r = rem.clone();
                r.remove(k);
                out.push(Step { op: Op::Batch { start: *start, vals: vals.clone(), rem: r }, ..s.clone() });
            }
            let simple: Vec<Fr> = (0..vals.len()).map(|k| Fr::from(21 + k as u64)).collect();
            if simple != *vals {
                out.push(Step { op: Op::Batch { start: *start, vals: simple, rem: rem.clone() }, ..s.clone() });
            }
        }
        Op::Init { vals } => {
            if vals.len() > 1 {
                out.push(Step { op: Op::Init { vals: vals[..vals.len() - 1].to_vec() }, ..s.clone() });
            }
        }
        _ => {}
    }
    out
}
