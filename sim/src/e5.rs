//! E5 — schedules, pool sizes and the retry clock (C18, C14).
//!
//! (a) transcript: a fixed seeded workload whose deterministic results are printed; the
//!     orchestrator runs it in processes with different worker-pool sizes and compares.
//! (b) baton scheduler: N caller threads share one RLN instance; only the baton holder runs, the
//!     baton changes hands at yield points (API entry/exit in the harness, guarded yield points in
//!     /repo), the next holder is chosen by the PRNG; the choice sequence is the schedule.
//! (d) retry clock: the open-with-retry loop runs against a lock the simulator holds and releases
//!     at a simulated time; the loop's sleeps advance the simulated clock.

use ark_bn254::Fr;
use serde_json::{json, Value};
use std::cell::Cell;
use std::collections::BTreeMap;
use std::io::Cursor;
use std::sync::{Arc, Condvar, Mutex};

use rln::public::RLN;

use crate::prng::Prng;
use crate::proto::*;
use crate::util::*;

// ------------------------------------------------------------------------------------------------
// (b) baton scheduler
// ------------------------------------------------------------------------------------------------

const NOBODY: usize = usize::MAX;
/// Scheduling mode of the supplementary uncontrolled stage (real parallel threads, no baton).
pub const FREE_RUNNING: u8 = 9;

struct Inner {
    current: usize,
    alive: Vec<bool>,
    started: bool,
    rng: Prng,
    mode: u8,
    prio: Vec<u32>,
    change_at: Vec<u64>,
    choices: Vec<u8>,
    replay: Option<Vec<u8>>,
    pos: usize,
    yields: u64,
    switches: u64,
    sites: BTreeMap<&'static str, u64>,
    diverged: bool,
}

pub struct Baton {
    mu: Mutex<Inner>,
    cv: Condvar,
}

static BATON: Mutex<Option<Arc<Baton>>> = Mutex::new(None);

thread_local! {
    static TID: Cell<usize> = Cell::new(NOBODY);
}

impl Inner {
    fn choose(&mut self, me: usize) -> usize {
        let alive: Vec<usize> = (0..self.alive.len()).filter(|i| self.alive[*i]).collect();
        if alive.is_empty() {
            return NOBODY;
        }
        if let Some(r) = &self.replay {
            if self.pos < r.len() {
                let c = r[self.pos] as usize;
                self.pos += 1;
                if self.alive.get(c).copied().unwrap_or(false) {
                    self.choices.push(c as u8);
                    return c;
                }
                self.diverged = true;
            } else {
                self.diverged = true;
            }
        }
        let c = match self.mode {
            // uniform
            0 => alive[self.rng.usize_below(alive.len())],
            // sticky: keep running with probability 3/4
            1 => {
                if me != NOBODY && self.alive[me] && self.rng.chance(3, 4) { me } else { alive[self.rng.usize_below(alive.len())] }
            }
            // priority based with a few priority change points (PCT style)
            _ => {
                if self.change_at.contains(&self.yields) && me != NOBODY {
                    let low = self.prio.iter().copied().min().unwrap_or(0);
                    self.prio[me] = low.saturating_sub(1);
                }
                *alive.iter().max_by_key(|i| self.prio[**i]).unwrap()
            }
        };
        self.choices.push(c as u8);
        c
    }
}

fn baton() -> Option<Arc<Baton>> {
    BATON.lock().unwrap().clone()
}

fn on_yield(site: &'static str) {
    let me = TID.with(|t| t.get());
    if me == NOBODY {
        return;
    }
    let b = match baton() {
        Some(b) => b,
        None => return,
    };
    let mut g = b.mu.lock().unwrap();
    g.yields += 1;
    *g.sites.entry(site).or_insert(0) += 1;
    let next = g.choose(me);
    if next != me {
        g.switches += 1;
        g.current = next;
        b.cv.notify_all();
        while g.current != me {
            g = b.cv.wait(g).unwrap();
        }
    }
}

fn wait_turn(b: &Baton, me: usize) {
    let mut g = b.mu.lock().unwrap();
    while !(g.started && g.current == me) {
        g = b.cv.wait(g).unwrap();
    }
}

fn finish(b: &Baton, me: usize) {
    let mut g = b.mu.lock().unwrap();
    g.alive[me] = false;
    let next = g.choose(NOBODY);
    g.current = next;
    b.cv.notify_all();
}

#[derive(Clone, Debug, PartialEq)]
pub enum RCall {
    // phase 1 (cold globals)
    HashToField { bytes: Vec<u8> },
    Poseidon { n: usize, seed: u64 },
    SeededKeygen { seed: Vec<u8> },
    SeededExtKeygen { seed: Vec<u8> },
    Keygen,
    NewInstance,
    // phase 2 (shared instance)
    Verify { msg: usize },
    VerifyRln { msg: usize, alter: u8 },
    VerifyRoots { msg: usize, roots: u8 },
    GetRoot,
    GetLeaf { i: usize },
    GetProof { i: usize },
    GetSubtreeRoot { level: usize, i: usize },
    EmptyLeaves,
    GetMeta,
    RlnSeededKeygen { seed: Vec<u8> },
    FfiSeededKeygen { seed: Vec<u8> },
    FfiHash { bytes: Vec<u8> },
    FfiVerifyRln { msg: usize },
    Recover { a: usize, b: usize },
    /// second instance in the same process, built from another valid key for the same circuit: verifies one of its own
    /// messages (expected true) or one of the first instance's (expected false)
    VerifyOnB { msg: usize, foreign: bool },
    /// the first instance verifies a message of the second one (expected false)
    VerifyBOnA { msg: usize },
}

impl RCall {
    pub fn to_json(&self) -> Value {
        match self {
            RCall::HashToField { bytes } => json!({"c":"hash_to_field","bytes":hex(bytes)}),
            RCall::Poseidon { n, seed } => json!({"c":"poseidon","n":*n as u64,"seed":seed.to_string()}),
            RCall::SeededKeygen { seed } => json!({"c":"seeded_keygen","seed":hex(seed)}),
            RCall::SeededExtKeygen { seed } => json!({"c":"seeded_ext_keygen","seed":hex(seed)}),
            RCall::Keygen => json!({"c":"keygen"}),
            RCall::NewInstance => json!({"c":"new_instance"}),
            RCall::Verify { msg } => json!({"c":"verify","msg":*msg as u64}),
            RCall::VerifyRln { msg, alter } => json!({"c":"verify_rln","msg":*msg as u64,"alter":*alter}),
            RCall::VerifyRoots { msg, roots } => json!({"c":"verify_roots","msg":*msg as u64,"roots":*roots}),
            RCall::GetRoot => json!({"c":"get_root"}),
            RCall::GetLeaf { i } => json!({"c":"get_leaf","i":*i as u64}),
            RCall::GetProof { i } => json!({"c":"get_proof","i":*i as u64}),
            RCall::GetSubtreeRoot { level, i } => json!({"c":"get_subtree_root","level":*level as u64,"i":*i as u64}),
            RCall::EmptyLeaves => json!({"c":"empty_leaves"}),
            RCall::GetMeta => json!({"c":"get_meta"}),
            RCall::RlnSeededKeygen { seed } => json!({"c":"rln_seeded_keygen","seed":hex(seed)}),
            RCall::FfiSeededKeygen { seed } => json!({"c":"ffi_seeded_keygen","seed":hex(seed)}),
            RCall::FfiHash { bytes } => json!({"c":"ffi_hash","bytes":hex(bytes)}),
            RCall::FfiVerifyRln { msg } => json!({"c":"ffi_verify_rln","msg":*msg as u64}),
            RCall::Recover { a, b } => json!({"c":"recover","a":*a as u64,"b":*b as u64}),
            RCall::VerifyOnB { msg, foreign } => json!({"c":"verify_on_b","msg":*msg as u64,"foreign":*foreign}),
            RCall::VerifyBOnA { msg } => json!({"c":"verify_b_on_a","msg":*msg as u64}),
        }
    }
    pub fn from_json(v: &Value) -> Option<RCall> {
        let u = |k: &str| v[k].as_u64().unwrap_or(0) as usize;
        let hb = |k: &str| unhex(v[k].as_str().unwrap_or(""));
        Some(match v["c"].as_str()? {
            "hash_to_field" => RCall::HashToField { bytes: hb("bytes") },
            "poseidon" => RCall::Poseidon { n: u("n"), seed: v["seed"].as_str().and_then(|s| s.parse().ok()).unwrap_or(0) },
            "seeded_keygen" => RCall::SeededKeygen { seed: hb("seed") },
            "seeded_ext_keygen" => RCall::SeededExtKeygen { seed: hb("seed") },
            "keygen" => RCall::Keygen,
            "new_instance" => RCall::NewInstance,
            "verify" => RCall::Verify { msg: u("msg") },
            "verify_rln" => RCall::VerifyRln { msg: u("msg"), alter: u("alter") as u8 },
            "verify_roots" => RCall::VerifyRoots { msg: u("msg"), roots: u("roots") as u8 },
            "get_root" => RCall::GetRoot,
            "get_leaf" => RCall::GetLeaf { i: u("i") },
            "get_proof" => RCall::GetProof { i: u("i") },
            "get_subtree_root" => RCall::GetSubtreeRoot { level: u("level"), i: u("i") },
            "empty_leaves" => RCall::EmptyLeaves,
            "get_meta" => RCall::GetMeta,
            "rln_seeded_keygen" => RCall::RlnSeededKeygen { seed: hb("seed") },
            "ffi_seeded_keygen" => RCall::FfiSeededKeygen { seed: hb("seed") },
            "ffi_hash" => RCall::FfiHash { bytes: hb("bytes") },
            "ffi_verify_rln" => RCall::FfiVerifyRln { msg: u("msg") },
            "recover" => RCall::Recover { a: u("a"), b: u("b") },
            "verify_on_b" => RCall::VerifyOnB { msg: u("msg"), foreign: v["foreign"].as_bool().unwrap_or(false) },
            "verify_b_on_a" => RCall::VerifyBOnA { msg: u("msg") },
            _ => return None,
        })
    }
}

#[derive(Clone, Debug, PartialEq)]
pub struct BatonTrace {
    pub seed: u64,
    pub mode: u8,
    pub threads: usize,
    /// phase 1 scripts (cold lazily-initialised globals), one per thread
    pub cold: Vec<Vec<RCall>>,
    /// tree content of the shared instance: (index, value)
    pub leaves: Vec<(usize, Fr)>,
    /// members (secret, limit, index, id, ext, signal) whose messages are prepared before phase 2
    pub publishes: Vec<(Fr, Fr, usize, Fr, Fr, Vec<u8>)>,
    /// phase 2 scripts on the shared instance
    pub shared: Vec<Vec<RCall>>,
    /// recorded schedules (thread id per decision) for replay; empty = draw from the PRNG
    pub schedule_cold: Vec<u8>,
    pub schedule_shared: Vec<u8>,
    /// the shared instance of phase 2 is *re-created from a storage location* that a first instance populated, flushed and
    /// dropped (so whatever the instance fills lazily is cold when the callers arrive); the sequential reference is taken
    /// on the first instance, before it is dropped
    pub reload: bool,
    /// a second instance built from another valid key for the same circuit lives in the process; some calls verify on it
    pub two_keys: bool,
}

impl BatonTrace {
    pub fn to_json(&self) -> Value {
        let scripts = |s: &Vec<Vec<RCall>>| s.iter().map(|t| t.iter().map(|c| c.to_json()).collect::<Vec<_>>()).collect::<Vec<_>>();
        json!({
            "engine":"e5b","property":"C18","seed":self.seed,"mode":self.mode,"threads":self.threads as u64,
            "cold":scripts(&self.cold),
            "leaves":self.leaves.iter().map(|(i,v)| json!([*i as u64, fr_to_json(v)])).collect::<Vec<_>>(),
            "publishes":self.publishes.iter().map(|(s,l,i,id,e,sig)| json!({"secret":fr_to_json(s),"limit":fr_to_json(l),"index":*i as u64,"id":fr_to_json(id),"ext":fr_to_json(e),"signal":hex(sig)})).collect::<Vec<_>>(),
            "shared":scripts(&self.shared),
            "schedule_cold":self.schedule_cold,
            "schedule_shared":self.schedule_shared,
            "reload":self.reload,
            "two_keys":self.two_keys,
        })
    }
    pub fn from_json(v: &Value) -> Option<BatonTrace> {
        let scripts = |k: &str| -> Vec<Vec<RCall>> {
            v[k].as_array().map(|a| a.iter().map(|t| t.as_array().map(|x| x.iter().filter_map(RCall::from_json).collect()).unwrap_or_default()).collect()).unwrap_or_default()
        };
        let sched = |k: &str| -> Vec<u8> { v[k].as_array().map(|a| a.iter().map(|x| x.as_u64().unwrap_or(0) as u8).collect()).unwrap_or_default() };
        Some(BatonTrace {
            seed: v["seed"].as_u64().unwrap_or(0),
            mode: v["mode"].as_u64().unwrap_or(0) as u8,
            threads: v["threads"].as_u64()? as usize,
            cold: scripts("cold"),
            leaves: v["leaves"].as_array()?.iter().map(|p| (p[0].as_u64().unwrap_or(0) as usize, fr_from_json(&p[1]))).collect(),
            publishes: v["publishes"].as_array()?.iter().map(|p| (fr_from_json(&p["secret"]), fr_from_json(&p["limit"]), p["index"].as_u64().unwrap_or(0) as usize,
                fr_from_json(&p["id"]), fr_from_json(&p["ext"]), unhex(p["signal"].as_str().unwrap_or("")))).collect(),
            shared: scripts("shared"),
            schedule_cold: sched("schedule_cold"),
            schedule_shared: sched("schedule_shared"),
            reload: v["reload"].as_bool().unwrap_or(false),
            two_keys: v["two_keys"].as_bool().unwrap_or(false),
        })
    }
    pub fn digest(&self) -> u64 {
        fnv_str(&self.to_json().to_string())
    }
}

/// Deterministic result of one call: bytes, verdict, or error class.
#[derive(Clone, Debug, PartialEq)]
pub enum RResult {
    Bytes(Vec<u8>),
    Verdict(Option<bool>),
    Identity(Vec<u8>),
    Panic(String),
    None,
}

struct Shared {
    rln: RLN,
    msgs: Vec<(Vec<u8>, Vec<u8>)>,
    depth: usize,
    /// second instance (another valid key for the same circuit) and its messages
    rln_b: Option<RLN>,
    msgs_b: Vec<Vec<u8>>,
}

fn do_call(c: &RCall, sh: Option<&Shared>) -> RResult {
    let r = guarded(|| -> RResult {
        match c {
            RCall::HashToField { bytes } => RResult::Bytes(fr_to_le32(&rln::hashers::hash_to_field(bytes)).to_vec()),
            RCall::Poseidon { n, seed } => {
                let mut r = Prng::new(*seed);
                let v: Vec<Fr> = (0..*n).map(|_| fr_from_le(&r.bytes(32))).collect();
                RResult::Bytes(fr_to_le32(&rln::hashers::poseidon_hash(&v)).to_vec())
            }
            RCall::SeededKeygen { seed } => {
                let (s, c) = rln::protocol::seeded_keygen(seed);
                let mut b = fr_to_le32(&s).to_vec();
                b.extend_from_slice(&fr_to_le32(&c));
                RResult::Bytes(b)
            }
            RCall::SeededExtKeygen { seed } => {
                let (t, n, s, c) = rln::protocol::extended_seeded_keygen(seed);
                let mut b = Vec::new();
                for f in [t, n, s, c] {
                    b.extend_from_slice(&fr_to_le32(&f));
                }
                RResult::Bytes(b)
            }
            RCall::Keygen => {
                let (s, c) = rln::protocol::keygen();
                let mut b = fr_to_le32(&s).to_vec();
                b.extend_from_slice(&fr_to_le32(&c));
                RResult::Identity(b)
            }
            RCall::NewInstance => {
                let r = RLN::new(20, Cursor::new("{}".to_string()));
                match r {
                    Ok(r) => {
                        let mut w = Vec::new();
                        let _ = r.get_root(&mut w);
                        RResult::Bytes(w)
                    }
                    Err(e) => RResult::Panic(format!("RLN::new failed: {e}")),
                }
            }
            other => {
                let sh = sh.expect("shared instance");
                let msg = |k: usize| sh.msgs.get(k % sh.msgs.len().max(1)).cloned().unwrap_or_default();
                match other {
                    RCall::Verify { msg: k } => RResult::Verdict(sh.rln.verify(Cursor::new(msg(*k).0)).ok()),
                    RCall::VerifyRln { msg: k, alter } => {
                        let (m, sig) = msg(*k);
                        let mut input = enc_verify_input(&m, &sig);
                        match alter % 4 {
                            1 => { let l = input.len(); if l > 200 { input[200] ^= 1; } }
                            2 => input.truncate(100),
                            3 => input.push(7),
                            _ => {}
                        }
                        RResult::Verdict(sh.rln.verify_rln_proof(Cursor::new(input)).ok())
                    }
                    RCall::VerifyRoots { msg: k, roots } => {
                        let (m, sig) = msg(*k);
                        let root = if m.len() >= 160 { m[128..160].to_vec() } else { vec![0; 32] };
                        let rb = match roots % 3 { 0 => root, 1 => Vec::new(), _ => vec![5u8; 64] };
                        RResult::Verdict(sh.rln.verify_with_roots(Cursor::new(enc_verify_input(&m, &sig)), Cursor::new(rb)).ok())
                    }
                    RCall::GetRoot => { let mut w = Vec::new(); let r = sh.rln.get_root(&mut w); if r.is_ok() { RResult::Bytes(w) } else { RResult::None } }
                    RCall::GetLeaf { i } => { let mut w = Vec::new(); let r = sh.rln.get_leaf(*i, &mut w); if r.is_ok() { RResult::Bytes(w) } else { RResult::None } }
                    RCall::GetProof { i } => { let mut w = Vec::new(); let r = sh.rln.get_proof(*i % (1 << sh.depth), &mut w); if r.is_ok() { RResult::Bytes(w) } else { RResult::None } }
                    RCall::GetSubtreeRoot { level, i } => { let mut w = Vec::new(); let r = sh.rln.get_subtree_root(*level % (sh.depth + 1), *i % (1 << sh.depth), &mut w); if r.is_ok() { RResult::Bytes(w) } else { RResult::None } }
                    RCall::EmptyLeaves => { let mut w = Vec::new(); let r = sh.rln.get_empty_leaves_indices(&mut w); if r.is_ok() { RResult::Bytes(w) } else { RResult::None } }
                    RCall::GetMeta => { let mut w = Vec::new(); let r = sh.rln.get_metadata(&mut w); if r.is_ok() { RResult::Bytes(w) } else { RResult::None } }
                    RCall::RlnSeededKeygen { seed } => { let mut w = Vec::new(); let r = sh.rln.seeded_key_gen(Cursor::new(seed.clone()), &mut w); if r.is_ok() { RResult::Bytes(w) } else { RResult::None } }
                    RCall::FfiSeededKeygen { seed } => {
                        let mut ob = rln::ffi::Buffer { ptr: std::ptr::null(), len: 0 };
                        let ib = rln::ffi::Buffer { ptr: seed.as_ptr(), len: seed.len() };
                        let ok = rln::ffi::seeded_key_gen(&sh.rln as *const RLN, &ib, &mut ob);
                        if ok && !ob.ptr.is_null() { RResult::Bytes(unsafe { std::slice::from_raw_parts(ob.ptr, ob.len) }.to_vec()) } else { RResult::None }
                    }
                    RCall::FfiHash { bytes } => {
                        let mut ob = rln::ffi::Buffer { ptr: std::ptr::null(), len: 0 };
                        let ib = rln::ffi::Buffer { ptr: bytes.as_ptr(), len: bytes.len() };
                        let ok = rln::ffi::hash(&ib, &mut ob);
                        if ok && !ob.ptr.is_null() { RResult::Bytes(unsafe { std::slice::from_raw_parts(ob.ptr, ob.len) }.to_vec()) } else { RResult::None }
                    }
                    RCall::FfiVerifyRln { msg: k } => {
                        let (m, sig) = msg(*k);
                        let input = enc_verify_input(&m, &sig);
                        let ib = rln::ffi::Buffer { ptr: input.as_ptr(), len: input.len() };
                        let mut v = false;
                        let ok = rln::ffi::verify_rln_proof(&sh.rln as *const RLN, &ib, &mut v);
                        RResult::Verdict(if ok { Some(v) } else { None })
                    }
                    RCall::Recover { a, b } => {
                        let mut w = Vec::new();
                        let r = sh.rln.recover_id_secret(Cursor::new(msg(*a).0), Cursor::new(msg(*b).0), &mut w);
                        if r.is_ok() { RResult::Bytes(w) } else { RResult::None }
                    }
                    RCall::VerifyOnB { msg: k, foreign } => match &sh.rln_b {
                        // (the reference instance has no second key: the expected verdict is known a priori)
                        None => RResult::Verdict(Some(!*foreign)),
                        Some(b) => {
                            let bytes = if *foreign { msg(*k).0[..288].to_vec() } else { sh.msgs_b[*k % sh.msgs_b.len().max(1)].clone() };
                            let r = b.verify(Cursor::new(bytes));
                            RResult::Verdict(r.ok())
                        }
                    },
                    RCall::VerifyBOnA { msg: k } => {
                        if sh.msgs_b.is_empty() {
                            RResult::Verdict(Some(false))
                        } else {
                            let r = sh.rln.verify(Cursor::new(sh.msgs_b[*k % sh.msgs_b.len()].clone()));
                            RResult::Verdict(r.ok())
                        }
                    }
                    _ => RResult::None,
                }
            }
        }
    });
    match r {
        Ok(x) => x,
        Err(p) => RResult::Panic(p),
    }
}

pub struct PhaseOut {
    pub results: Vec<Vec<RResult>>,
    pub schedule: Vec<u8>,
    pub yields: u64,
    pub switches: u64,
    pub sites: BTreeMap<String, u64>,
    pub stuck: bool,
    pub diverged: bool,
}

/// Runs the scripts on real threads, one at a time under the baton.
fn run_phase(scripts: &[Vec<RCall>], sh: Option<Arc<Shared>>, seed: u64, mode: u8, replay: &[u8], watchdog_s: u64) -> PhaseOut {
    let n = scripts.len();
    let mut rng = Prng::new(seed);
    let mut prio: Vec<u32> = (0..n as u32).map(|i| 100 + i).collect();
    for i in (1..n).rev() {
        let j = rng.usize_below(i + 1);
        prio.swap(i, j);
    }
    let total_calls: u64 = scripts.iter().map(|s| s.len() as u64).sum();
    let change_at: Vec<u64> = (0..3).map(|_| rng.below(total_calls * 3 + 1)).collect();
    let b = Arc::new(Baton {
        mu: Mutex::new(Inner {
            current: NOBODY,
            alive: vec![true; n],
            started: false,
            rng,
            mode,
            prio,
            change_at,
            choices: Vec::new(),
            replay: if replay.is_empty() { None } else { Some(replay.to_vec()) },
            pos: 0,
            yields: 0,
            switches: 0,
            sites: BTreeMap::new(),
            diverged: false,
        }),
        cv: Condvar::new(),
    });
    *BATON.lock().unwrap() = Some(b.clone());
    zerokit_utils::verif::set_yield_fn(Some(on_yield));
    let results: Arc<Mutex<Vec<Vec<RResult>>>> = Arc::new(Mutex::new(vec![Vec::new(); n]));
    let mut handles = Vec::new();
    for (me, script) in scripts.iter().cloned().enumerate() {
        let b = b.clone();
        let sh = sh.clone();
        let results = results.clone();
        let free = mode == FREE_RUNNING;
        handles.push(std::thread::spawn(move || {
            if free {
                // uncontrolled stage: real parallelism, the baton is not used (yield points return at once);
                // a start barrier makes the threads overlap
                {
                    let mut g = b.mu.lock().unwrap();
                    while !g.started {
                        g = b.cv.wait(g).unwrap();
                    }
                }
                let mut out = Vec::new();
                // scripts made only of cheap calls (hashing, key derivation, tree reads) are repeated many times: a
                // race window of a few instructions needs ~10^4..10^5 overlapping calls to be hit
                let cheap = script.iter().all(|c| !matches!(c, RCall::NewInstance | RCall::Verify { .. } | RCall::VerifyRln { .. } | RCall::VerifyRoots { .. } | RCall::FfiVerifyRln { .. }));
                let rounds = if cheap { 4000 } else { 3 };
                for round in 0..rounds {
                    for (k, c) in script.iter().enumerate() {
                        let r = do_call(c, sh.as_deref());
                        if round == 0 {
                            out.push(r);
                        } else if !same(&out[k], &r) {
                            // a later repetition disagrees with the first: keep the odd one so that the comparison
                            // with the sequential reference reports it
                            out[k] = r;
                        }
                    }
                }
                results.lock().unwrap()[me] = out;
                return;
            }
            TID.with(|t| t.set(me));
            wait_turn(&b, me);
            let mut out = Vec::new();
            for c in &script {
                on_yield("api_entry");
                out.push(do_call(c, sh.as_deref()));
                on_yield("api_exit");
            }
            results.lock().unwrap()[me] = out;
            TID.with(|t| t.set(NOBODY));
            finish(&b, me);
        }));
    }
    {
        let mut g = b.mu.lock().unwrap();
        g.started = true;
        let first = g.choose(NOBODY);
        g.current = first;
        b.cv.notify_all();
    }
    let deadline = std::time::Instant::now() + std::time::Duration::from_secs(watchdog_s);
    let mut stuck = false;
    loop {
        if handles.iter().all(|h| h.is_finished()) {
            break;
        }
        if std::time::Instant::now() > deadline {
            stuck = true;
            break;
        }
        std::thread::sleep(std::time::Duration::from_millis(2));
    }
    if !stuck {
        for h in handles {
            let _ = h.join();
        }
    }
    zerokit_utils::verif::set_yield_fn(None);
    *BATON.lock().unwrap() = None;
    let g = b.mu.lock().unwrap();
    let res = results.lock().unwrap().clone();
    PhaseOut {
        results: res,
        schedule: g.choices.clone(),
        yields: g.yields,
        switches: g.switches,
        sites: g.sites.iter().map(|(k, v)| (k.to_string(), *v)).collect(),
        stuck,
        diverged: g.diverged,
    }
}

#[derive(Clone, Debug)]
pub struct Violation {
    pub clause: String,
    pub detail: String,
    pub prop: String,
}
impl Violation {
    pub fn class(&self) -> String {
        format!("{}|baton|{}", self.prop, self.clause)
    }
    pub fn to_json(&self) -> Value {
        json!({"property": self.prop, "clause": self.clause, "detail": self.detail, "class": self.class()})
    }
}

pub struct BatonOutcome {
    pub violation: Option<Violation>,
    pub harness_error: Option<String>,
    pub trace_with_schedule: BatonTrace,
    pub counters: Counters,
    pub schedule_digest: u64,
    pub log: u64,
}

fn keygen_call(c: &RCall) -> bool {
    matches!(c, RCall::SeededKeygen { .. } | RCall::SeededExtKeygen { .. } | RCall::Keygen | RCall::RlnSeededKeygen { .. } | RCall::FfiSeededKeygen { .. })
}

fn same(a: &RResult, b: &RResult) -> bool {
    match (a, b) {
        // unseeded identities are random: compared by relation and distinctness elsewhere
        (RResult::Identity(_), RResult::Identity(_)) => true,
        _ => a == b,
    }
}

pub fn run_baton(trace: &BatonTrace, prop: &str, cold_process: bool) -> BatonOutcome {
    let mut counters = Counters::default();
    let mut out_trace = trace.clone();
    let mut log = Fnv::new();
    let viol = |clause: &str, detail: String| Some(Violation { clause: clause.to_string(), detail, prop: prop.to_string() });
    // ---- phase 1: lazily initialised globals, all threads start cold
    let p1 = run_phase(&trace.cold, None, trace.seed ^ 0x11, trace.mode, &trace.schedule_cold, 180);
    out_trace.schedule_cold = p1.schedule.clone();
    counters.add("yields", p1.yields);
    counters.add("thread_switches", p1.switches);
    counters.add("fault.scheduler_switched_thread_at_yield_point", p1.switches);
    for (k, v) in &p1.sites {
        counters.add(&format!("site.{k}"), *v);
    }
    if cold_process {
        counters.inc("reach.cold_globals_raced");
    }
    let mut o = BatonOutcome { violation: None, harness_error: None, trace_with_schedule: out_trace.clone(), counters: Counters::default(), schedule_digest: 0, log: 0 };
    if p1.stuck {
        o.violation = viol("no_progress_cold_phase", format!("threads did not finish within the watchdog; schedule prefix {:?}", &p1.schedule[..p1.schedule.len().min(40)]));
        o.counters = counters;
        return o;
    }
    if p1.diverged && !trace.schedule_cold.is_empty() {
        counters.inc("replay_schedule_diverged");
    }
    // sequential reference for phase 1
    let mut unseeded: Vec<Vec<u8>> = Vec::new();
    for (t, script) in trace.cold.iter().enumerate() {
        for (k, c) in script.iter().enumerate() {
            let want = do_call(c, None);
            let got = p1.results.get(t).and_then(|r| r.get(k)).cloned().unwrap_or(RResult::None);
            counters.inc("oracle_evaluations");
            log.add(format!("{:?}", matches!(got, RResult::Panic(_))).as_bytes());
            if prop == "C14" && !keygen_call(c) {
                continue;
            }
            if let RResult::Panic(p) = &got {
                o.violation = viol("panic_under_concurrency", format!("thread {t} call {k} {}: {p}", c.to_json()));
                o.counters = counters;
                o.trace_with_schedule = out_trace;
                return o;
            }
            if let RResult::Identity(b) = &got {
                unseeded.push(b.clone());
                if let Err(e) = identity_relations(b, 2) {
                    o.violation = viol("identity_relation", e);
                    o.counters = counters;
                    return o;
                }
            }
            if !same(&want, &got) {
                o.violation = viol("differs_from_sequential", format!("thread {t} call {k} {}: concurrent {:?} sequential {:?}", c.to_json(), short(&got), short(&want)));
                o.counters = counters;
                o.trace_with_schedule = out_trace;
                return o;
            }
        }
    }
    for i in 0..unseeded.len() {
        for j in (i + 1)..unseeded.len() {
            if unseeded[i] == unseeded[j] {
                o.violation = viol("unseeded_identities_collide", "two concurrent unseeded key generations returned the same identity".to_string());
                o.counters = counters;
                return o;
            }
        }
    }
    // ---- uncontrolled stage only: a storm of cheap calls with mixed arities / lengths / seeds from 8 real threads,
    // each result compared with the value computed beforehand on one thread (a race window of a few instructions
    // needs ~10^5 overlapping calls to be hit; supplementary, the baton stages are the deciding ones)
    if trace.mode == FREE_RUNNING {
        let mut table: Vec<(RCall, RResult)> = Vec::new();
        for n in 1..=4usize {
            table.push((RCall::Poseidon { n, seed: n as u64 }, RResult::None));
        }
        for k in [0usize, 5, 40] {
            table.push((RCall::HashToField { bytes: vec![7u8; k] }, RResult::None));
        }
        for k in 0..3u8 {
            table.push((RCall::SeededKeygen { seed: vec![k, 1, 2] }, RResult::None));
            table.push((RCall::SeededExtKeygen { seed: vec![k, 9] }, RResult::None));
        }
        for e in table.iter_mut() {
            e.1 = do_call(&e.0, None);
        }
        let table = Arc::new(table);
        let bad: Arc<Mutex<Option<String>>> = Arc::new(Mutex::new(None));
        let calls = Arc::new(std::sync::atomic::AtomicU64::new(0));
        let mut hs = Vec::new();
        for t in 0..8usize {
            let (table, bad, calls) = (table.clone(), bad.clone(), calls.clone());
            hs.push(std::thread::spawn(move || {
                let n = table.len();
                for it in 0..30_000usize {
                    let (c, want) = &table[(it * (t + 1) + t) % n];
                    let got = do_call(c, None);
                    if !same(want, &got) {
                        *bad.lock().unwrap() = Some(format!("thread {t} iteration {it} {}: concurrent {} sequential {}", c.to_json(), short(&got), short(want)));
                        break;
                    }
                    if it % 1000 == 0 && bad.lock().unwrap().is_some() {
                        break;
                    }
                }
                calls.fetch_add(30_000, std::sync::atomic::Ordering::Relaxed);
            }));
        }
        for h in hs {
            let _ = h.join();
        }
        counters.add("free_running_storm_calls", calls.load(std::sync::atomic::Ordering::Relaxed));
        counters.inc("reach.free_running_scenarios");
        let verdict: Option<String> = { let g = bad.lock().unwrap(); g.clone() };
        if let Some(d) = verdict {
            o.violation = viol("differs_from_sequential", d);
            o.counters = counters;
            o.trace_with_schedule = out_trace;
            return o;
        }
    }
    // ---- shared instance and messages
    let depth = 20;
    let reload_dir = std::env::temp_dir().join(format!("e5-reload-{}-{}", std::process::id(), trace.seed));
    let reload_cfg = json!({"tree_config": {"path": reload_dir.join("tree").to_str().unwrap(), "temporary": false, "cache_capacity": 1u64 << 20, "flush_every_ms": Value::Null, "mode": "HighThroughput", "use_compression": false}}).to_string();
    let cfg = if trace.reload {
        let _ = std::fs::remove_dir_all(&reload_dir);
        let _ = std::fs::create_dir_all(&reload_dir);
        reload_cfg.clone()
    } else {
        "{}".to_string()
    };
    let rln = match guarded(|| RLN::new(depth, Cursor::new(cfg.clone()))) {
        Ok(Ok(r)) => r,
        other => {
            o.harness_error = Some(format!("RLN::new: {:?}", other.map(|x| x.map(|_| ()).map_err(|e| e.to_string()))));
            o.counters = counters;
            return o;
        }
    };
    let mut rln = rln;
    for (i, v) in &trace.leaves {
        if let Err(e) = rln.set_leaf(*i, Cursor::new(fr_to_le32(v).to_vec())) {
            o.harness_error = Some(format!("set_leaf: {e}"));
            o.counters = counters;
            return o;
        }
    }
    let _ = rln.set_metadata(b"e5-shared");
    let mut msgs = Vec::new();
    for (secret, limit, index, id, ext, signal) in &trace.publishes {
        if let Err(e) = rln.set_leaf(*index, Cursor::new(fr_to_le32(&rate_commitment(secret, limit)).to_vec())) {
            o.harness_error = Some(format!("set_leaf: {e}"));
            o.counters = counters;
            return o;
        }
    }
    for (secret, limit, index, id, ext, signal) in &trace.publishes {
        let req = enc_request(secret, *index as u64, limit, id, ext, signal);
        let mut w = Vec::new();
        match guarded(|| rln.generate_rln_proof(Cursor::new(req.clone()), &mut w)) {
            Ok(Ok(())) => msgs.push((w, signal.clone())),
            other => {
                o.harness_error = Some(format!("generate_rln_proof: {:?}", other.map(|x| x.map_err(|e| e.to_string()))));
                o.counters = counters;
                return o;
            }
        }
    }
    // a second instance with another valid key for the same circuit (what a deployment holds during a key rotation)
    let mut rln_b: Option<RLN> = None;
    let mut msgs_b: Vec<Vec<u8>> = Vec::new();
    #[cfg(not(feature = "arkzkey"))]
    if trace.two_keys {
        let key_b = rotated_zkey(Fr::from(0x5eed_u64 + (trace.seed % 1000)));
        match guarded(|| RLN::new_with_params(depth, key_b.clone(), rln::circuit::graph_from_folder().to_vec(), Cursor::new(Vec::<u8>::new()))) {
            Ok(Ok(mut b)) => {
                for (secret, limit, index, id, ext, signal) in &trace.publishes {
                    let _ = b.set_leaf(*index, Cursor::new(fr_to_le32(&rate_commitment(secret, limit)).to_vec()));
                    let req = enc_request(secret, *index as u64, limit, id, ext, signal);
                    let mut w = Vec::new();
                    match guarded(|| b.generate_rln_proof(Cursor::new(req.clone()), &mut w)) {
                        Ok(Ok(())) => msgs_b.push(w),
                        other => {
                            o.harness_error = Some(format!("generate_rln_proof on the second instance: {:?}", other.map(|x| x.map_err(|e| e.to_string()))));
                            o.counters = counters;
                            return o;
                        }
                    }
                }
                rln_b = Some(b);
                counters.inc("reach.second_instance_with_another_key");
            }
            other => {
                o.harness_error = Some(format!("RLN::new_with_params (rotated key): {:?}", other.map(|x| x.map(|_| ()).map_err(|e| e.to_string()))));
                o.counters = counters;
                return o;
            }
        }
    }
    let mut want_pre: Vec<Vec<RResult>> = Vec::new();
    let sh = if trace.reload {
        // the sequential reference: every scripted call once, on the first instance
        let first = Shared { rln, msgs, depth, rln_b: None, msgs_b: Vec::new() };
        for script in &trace.shared {
            want_pre.push(script.iter().map(|c| do_call(c, Some(&first))).collect());
        }
        let Shared { rln: mut first_rln, msgs, .. } = first;
        if let Err(e) = first_rln.flush() {
            o.harness_error = Some(format!("flush before reload: {e}"));
            o.counters = counters;
            return o;
        }
        drop(first_rln);
        crate::e1::wait_unlocked(&reload_dir.join("tree"));
        let second = match guarded(|| RLN::new(depth, Cursor::new(reload_cfg.clone()))) {
            Ok(Ok(r)) => r,
            other => {
                o.harness_error = Some(format!("RLN::new on the populated location: {:?}", other.map(|x| x.map(|_| ()).map_err(|e| e.to_string()))));
                o.counters = counters;
                return o;
            }
        };
        counters.inc("reach.shared_instance_reloaded_from_storage");
        Arc::new(Shared { rln: second, msgs, depth, rln_b, msgs_b })
    } else {
        // the sequential reference comes from a second, identically built instance (never from the shared one, whose state
        // a race may have damaged for good)
        let mut twin = match guarded(|| RLN::new(depth, Cursor::new("{}".to_string()))) {
            Ok(Ok(r)) => r,
            other => {
                o.harness_error = Some(format!("RLN::new (reference instance): {:?}", other.map(|x| x.map(|_| ()).map_err(|e| e.to_string()))));
                o.counters = counters;
                return o;
            }
        };
        for (i, v) in &trace.leaves {
            let _ = twin.set_leaf(*i, Cursor::new(fr_to_le32(v).to_vec()));
        }
        let _ = twin.set_metadata(b"e5-shared");
        for (secret, limit, index, _, _, _) in &trace.publishes {
            let _ = twin.set_leaf(*index, Cursor::new(fr_to_le32(&rate_commitment(secret, limit)).to_vec()));
        }
        let reference = Shared { rln: twin, msgs: msgs.clone(), depth, rln_b: None, msgs_b: Vec::new() };
        for script in &trace.shared {
            want_pre.push(script.iter().map(|c| do_call(c, Some(&reference))).collect());
        }
        Arc::new(Shared { rln, msgs, depth, rln_b, msgs_b })
    };
    // ---- phase 2: shared instance
    let p2 = run_phase(&trace.shared, Some(sh.clone()), trace.seed ^ 0x22, trace.mode, &trace.schedule_shared, 180);
    out_trace.schedule_shared = p2.schedule.clone();
    counters.add("yields", p2.yields);
    counters.add("thread_switches", p2.switches);
    counters.add("fault.scheduler_switched_thread_at_yield_point", p2.switches);
    for (k, v) in &p2.sites {
        counters.add(&format!("site.{k}"), *v);
    }
    o.trace_with_schedule = out_trace.clone();
    if p2.stuck {
        o.violation = viol("no_progress_shared_phase", format!("threads did not finish within the watchdog; schedule prefix {:?}", &p2.schedule[..p2.schedule.len().min(40)]));
        o.counters = counters;
        std::mem::forget(sh);
        return o;
    }
    for (t, script) in trace.shared.iter().enumerate() {
        for (k, c) in script.iter().enumerate() {
            let after = do_call(c, Some(&sh));
            let want = want_pre[t][k].clone();
            let got = p2.results.get(t).and_then(|r| r.get(k)).cloned().unwrap_or(RResult::None);
            counters.inc("oracle_evaluations");
            counters.inc(&format!("call.{}", c.to_json()["c"].as_str().unwrap_or("?")));
            log.add(format!("{:?}", short(&got)).as_bytes());
            if prop == "C14" && !keygen_call(c) {
                continue;
            }
            if let RResult::Panic(p) = &got {
                o.violation = viol("panic_under_concurrency", format!("thread {t} call {k} {}: {p}", c.to_json()));
                o.counters = counters;
                return o;
            }
            if !same(&want, &got) {
                o.violation = viol("differs_from_sequential", format!("thread {t} call {k} {}: concurrent {:?} sequential {:?}", c.to_json(), short(&got), short(&want)));
                o.counters = counters;
                return o;
            }
            if !(prop == "C14" && !keygen_call(c)) && !same(&want, &after) {
                o.violation = viol("differs_from_sequential", format!("thread {t} call {k} {}: the same call made sequentially after the concurrent phase returns {:?}, before it {:?}", c.to_json(), short(&after), short(&want)));
                o.counters = counters;
                return o;
            }
            // honest messages must be accepted (the sequential reference alone would accept "both wrong")
            if let (RCall::VerifyRln { alter: 0, .. }, RResult::Verdict(v)) = (c, &got) {
                if *v != Some(true) {
                    o.violation = viol("honest_message_rejected", format!("thread {t} call {k}: {:?}", v));
                    o.counters = counters;
                    return o;
                }
            }
        }
    }
    if trace.reload {
        drop(sh);
        let _ = std::fs::remove_dir_all(&reload_dir);
    }
    let mut f = Fnv::new();
    f.add(&out_trace.schedule_cold);
    f.add(&out_trace.schedule_shared);
    o.schedule_digest = f.0;
    o.log = log.0;
    o.counters = counters;
    o
}

fn short(r: &RResult) -> String {
    match r {
        RResult::Bytes(b) => format!("bytes[{}] {}", b.len(), hex(&b[..b.len().min(16)])),
        other => format!("{:?}", other),
    }
}

pub fn identity_relations(b: &[u8], n: usize) -> Result<(), String> {
    if b.len() != 32 * n {
        return Err(format!("identity has {} bytes", b.len()));
    }
    let f = |k: usize| fr_from_le(&b[32 * k..32 * k + 32]);
    for k in 0..n {
        if fr_to_le32(&f(k)) != b[32 * k..32 * k + 32] {
            return Err(format!("component {k} is not a canonically encoded field element"));
        }
    }
    if n == 2 {
        if h(&[f(0)]) != f(1) {
            return Err("commitment != H(secret)".into());
        }
    } else if h(&[f(0), f(1)]) != f(2) || h(&[f(2)]) != f(3) {
        return Err("secret != H(trapdoor, nullifier) or commitment != H(secret)".into());
    }
    Ok(())
}

pub fn generate_baton(seed: u64, thorough: bool, keygen_heavy: bool) -> BatonTrace {
    let mut rng = Prng::new(seed);
    let threads = 2 + rng.usize_below(3);
    // one scenario in five runs uncontrolled (real parallelism; supplementary, not replayable by schedule)
    let mode = if rng.chance(1, 5) { FREE_RUNNING } else { rng.below(3) as u8 };
    let seeds: Vec<Vec<u8>> = (0..3).map(|_| { let n = rng.usize_below(30); rng.bytes(n) }).collect();
    let mut cold = Vec::new();
    for _ in 0..threads {
        let n = 2 + rng.usize_below(4);
        let mut s = Vec::new();
        for _ in 0..n {
            s.push(match rng.weighted(&if keygen_heavy { [1, 1, 6, 5, 4, 1] } else { [3, 3, 3, 2, 2, 1] }) {
                0 => RCall::HashToField { bytes: { let k = rng.usize_below(140); rng.bytes(k) } },
                1 => RCall::Poseidon { n: 1 + rng.usize_below(8), seed: rng.below(5) },
                2 => RCall::SeededKeygen { seed: rng.pick(&seeds).clone() },
                3 => RCall::SeededExtKeygen { seed: rng.pick(&seeds).clone() },
                4 => RCall::Keygen,
                _ => RCall::NewInstance,
            });
        }
        cold.push(s);
    }
    if mode == FREE_RUNNING {
        // the uncontrolled stage hammers the cheap shared paths: every thread hashes inputs of several arities
        for (t, sc) in cold.iter_mut().enumerate() {
            sc.retain(|c| !matches!(c, RCall::NewInstance));
            sc.push(RCall::Poseidon { n: 1 + (t % 3), seed: 1 });
            sc.push(RCall::Poseidon { n: 1 + ((t + 1) % 4), seed: 2 });
            sc.push(RCall::SeededKeygen { seed: vec![t as u8] });
        }
    }
    let leaves: Vec<(usize, Fr)> = (0..(2 + rng.usize_below(5))).map(|_| (*rng.pick(&[0usize, 1, 5, 300, (1 << 19) - 1, 1 << 19, (1 << 20) - 1, 4097]), fr_from_le(&rng.bytes(32)))).collect();
    let npub = if keygen_heavy { 1 } else if thorough { 2 } else { 1 + rng.usize_below(2) };
    let mut publishes = Vec::new();
    let secret = fr_from_le(&rng.bytes(32));
    let limit = Fr::from(*rng.pick(&[2u64, 100, 65536]));
    let index = *rng.pick(&[7usize, 1 << 19, (1 << 20) - 2]);
    let ext = Fr::from(rng.below(3));
    for k in 0..npub {
        let sig = { let n = rng.usize_below(30); let mut s = rng.bytes(n); s.push(k as u8); s };
        publishes.push((secret, limit, index, Fr::from(0u64), ext, sig));
    }
    let mut shared = Vec::new();
    for _ in 0..threads {
        let n = 4 + rng.usize_below(if thorough { 10 } else { 6 });
        let mut s = Vec::new();
        for _ in 0..n {
            s.push(match rng.weighted(&if keygen_heavy { [1, 1, 1, 1, 1, 0, 0, 0, 0, 8, 8, 1, 0, 0] } else { [3, 5, 3, 2, 2, 2, 2, 2, 1, 2, 2, 2, 2, 2] }) {
                0 => RCall::Verify { msg: rng.usize_below(npub) },
                1 => RCall::VerifyRln { msg: rng.usize_below(npub), alter: *rng.pick(&[0u8, 0, 0, 1, 2, 3]) },
                2 => RCall::VerifyRoots { msg: rng.usize_below(npub), roots: rng.below(3) as u8 },
                3 => RCall::GetRoot,
                4 => RCall::GetLeaf { i: rng.pick(&leaves).0 },
                5 => RCall::GetProof { i: *rng.pick(&[0usize, 7, 1 << 19, (1 << 20) - 1]) },
                6 => RCall::GetSubtreeRoot { level: rng.usize_below(21), i: rng.pick(&leaves).0 },
                7 => RCall::EmptyLeaves,
                8 => RCall::GetMeta,
                9 => RCall::RlnSeededKeygen { seed: rng.pick(&seeds).clone() },
                10 => RCall::FfiSeededKeygen { seed: rng.pick(&seeds).clone() },
                11 => RCall::FfiHash { bytes: { let k = rng.usize_below(140); rng.bytes(k) } },
                12 => RCall::FfiVerifyRln { msg: rng.usize_below(npub) },
                _ => RCall::Recover { a: 0, b: npub - 1 },
            });
        }
        shared.push(s);
    }
    // every other scenario shares an instance re-created from storage; there every thread starts with the same state-dependent
    // read-only queries (the first callers of whatever that instance fills lazily arrive together)
    let mut r2 = Prng::new(seed ^ 0x5e10ad);
    let reload = cfg!(feature = "pm") && !keygen_heavy && r2.chance(1, 2);
    if reload {
        let first_leaf = leaves[0].0;
        for sc in shared.iter_mut() {
            let mut head = vec![RCall::GetMeta];
            for _ in 0..(1 + r2.usize_below(2)) {
                head.push(match r2.below(5) {
                    0 => RCall::GetRoot,
                    1 => RCall::GetLeaf { i: first_leaf },
                    2 => RCall::EmptyLeaves,
                    3 => RCall::GetProof { i: first_leaf },
                    _ => RCall::GetSubtreeRoot { level: 1 + r2.usize_below(20), i: first_leaf },
                });
            }
            let k = r2.usize_below(head.len());
            head.swap(0, k);
            head.extend(sc.drain(..));
            *sc = head;
        }
    }
    // one scenario in three also holds a second instance built from another valid key: each instance accepts its own messages
    // and refuses the other's, whoever verifies first
    let two_keys = cfg!(feature = "pm") && !cfg!(feature = "arkzkey") && !keygen_heavy && r2.chance(1, 3);
    if two_keys {
        for sc in shared.iter_mut() {
            let extra = 1 + r2.usize_below(3);
            for _ in 0..extra {
                let c = match r2.below(3) {
                    0 => RCall::VerifyOnB { msg: r2.usize_below(npub), foreign: false },
                    1 => RCall::VerifyOnB { msg: r2.usize_below(npub), foreign: true },
                    _ => RCall::VerifyBOnA { msg: r2.usize_below(npub) },
                };
                let at = r2.usize_below(sc.len() + 1);
                sc.insert(at, c);
            }
        }
    }
    BatonTrace { seed, mode, threads, cold, leaves, publishes, shared, schedule_cold: Vec::new(), schedule_shared: Vec::new(), reload, two_keys }
}

// ------------------------------------------------------------------------------------------------
// (d) retry clock
// ------------------------------------------------------------------------------------------------

pub struct ClockOutcome {
    pub violation: Option<(String, String)>,
    pub harness_error: Option<String>,
    pub sim_ms: u64,
    pub sleeps: Vec<u64>,
    pub counters: Counters,
}

/// A tree with known content exists at `path`; the simulator holds the storage lock and releases
/// it when the simulated clock reaches `release_ms`; the instance is re-created meanwhile.
/// kind: 0 = contended lock, 1 = the path is a regular file (not contention).
pub fn run_clock(scratch: &std::path::Path, release_ms: u64, kind: u8, via_rln: bool, seed: u64) -> ClockOutcome {
    use fs2::FileExt;
    let mut out = ClockOutcome { violation: None, harness_error: None, sim_ms: 0, sleeps: Vec::new(), counters: Counters::default() };
    let _ = std::fs::remove_dir_all(scratch);
    let _ = std::fs::create_dir_all(scratch);
    let path = scratch.join("tree");
    let depth = 4usize;
    let cfg = json!({"path": path.to_str().unwrap(), "temporary": false, "cache_capacity": 1048576, "flush_every_ms": null, "mode": "HighThroughput", "use_compression": false}).to_string();
    let rln_cfg = format!("{{\"tree_config\": {cfg}}}");
    let open = |via_rln: bool| -> Result<crate::e1::Node, String> {
        // reuse E1's node wrapper for reads
        let store = crate::e1::StoreCfg::default_cfg();
        let _ = &store;
        if via_rln {
            let r = RLN::new(depth, Cursor::new(rln_cfg.clone())).map_err(|e| e.to_string())?;
            Ok(crate::e1::Node::wrap_rln(r, depth))
        } else {
            #[cfg(feature = "pm")]
            {
                use zerokit_utils::ZerokitMerkleTree;
                let c: rln::pm_tree_adapter::PmtreeConfig = cfg.parse().map_err(|e: color_eyre::Report| e.to_string())?;
                let t = rln::pm_tree_adapter::PmTree::new(depth, Fr::from(0u64), c).map_err(|e| e.to_string())?;
                Ok(crate::e1::Node::wrap_pm(t, depth))
            }
            #[cfg(not(feature = "pm"))]
            Err("no pm".into())
        }
    };
    if kind == 1 {
        // not lock contention: the location is a regular file -> an immediate error, no retry sleeps
        std::fs::write(&path, b"not a directory").ok();
        zerokit_utils::verif::clock_install(None);
        let r = guarded(|| open(via_rln));
        let (ms, sleeps) = zerokit_utils::verif::clock_remove();
        out.sim_ms = ms;
        out.sleeps = sleeps.clone();
        out.counters.inc("reach.non_contention_error");
        match r {
            Err(p) => out.violation = Some(("open_panic".into(), p)),
            Ok(Ok(_)) => out.violation = Some(("open_succeeded_on_regular_file".into(), String::new())),
            Ok(Err(_)) => {
                if !sleeps.is_empty() {
                    out.violation = Some(("slept_on_non_contention_error".into(), format!("sleeps {:?}", sleeps)));
                }
            }
        }
        return out;
    }
    // 1. a tree with acknowledged, flushed content
    let mut rng = Prng::new(seed);
    let mut want: Vec<(usize, Fr)> = Vec::new();
    let (want_root, want_hwm);
    {
        let mut n = match open(via_rln) {
            Ok(n) => n,
            Err(e) => {
                out.harness_error = Some(format!("initial create: {e}"));
                return out;
            }
        };
        for _ in 0..(1 + rng.usize_below(5)) {
            let i = rng.usize_below(1 << depth);
            let v = fr_from_le(&rng.bytes(32));
            if let Err(e) = n.prim_set(i, v) {
                out.harness_error = Some(format!("set: {e}"));
                return out;
            }
            want.retain(|(k, _)| *k != i);
            want.push((i, v));
        }
        if let Err(e) = n.prim(crate::e1::Op::Flush) {
            out.harness_error = Some(format!("flush: {e}"));
            return out;
        }
        want_root = n.read_root().unwrap_or_default();
        want_hwm = n.observed_hwm();
        drop(n);
    }
    if kind == 2 {
        // real sequence, real clock: drop, then immediately re-create (sled's own threads release the lock)
        let t0 = std::time::Instant::now();
        let r = guarded(|| open(via_rln));
        out.counters.inc("reach.immediate_recreate_real_clock");
        match r {
            Err(p) => out.violation = Some(("open_panic".into(), p)),
            Ok(Err(e)) => out.violation = Some(("immediate_recreate_failed".into(), e)),
            Ok(Ok(mut n)) => {
                if t0.elapsed().as_secs() > 60 {
                    out.violation = Some(("recreate_not_in_bounded_time".into(), format!("{:?} of real time", t0.elapsed())));
                    return out;
                }
                let (r, hwm) = (n.read_root().unwrap_or_default(), n.observed_hwm());
                if r != want_root || hwm != want_hwm {
                    out.violation = Some(("acknowledged_update_lost_on_contended_reopen".into(), format!("root or leaf count changed (leaves_set {hwm}, was {want_hwm}) after dropping an instance and re-creating it at once")));
                    return out;
                }
                out.counters.inc("oracle_evaluations");
            }
        }
        return out;
    }
    crate::e1::wait_unlocked(&path);
    // 2. the simulator takes the lock, exactly as a previous owner whose threads have not finished
    let lock = match std::fs::OpenOptions::new().read(true).write(true).open(path.join("db")) {
        Ok(f) => f,
        Err(e) => {
            out.harness_error = Some(format!("open lock file: {e}"));
            return out;
        }
    };
    if let Err(e) = lock.try_lock_exclusive() {
        out.harness_error = Some(format!("cannot take the lock: {e}"));
        return out;
    }
    let lock = std::rc::Rc::new(std::cell::RefCell::new(Some(lock)));
    let l2 = lock.clone();
    if release_ms == 0 {
        if let Some(f) = l2.borrow_mut().take() {
            let _ = f.unlock();
        }
    }
    zerokit_utils::verif::clock_install(Some(Box::new(move |now_ms: u64| {
        if now_ms >= release_ms {
            if let Some(f) = l2.borrow_mut().take() {
                let _ = f.unlock();
            }
        }
    })));
    let r = guarded(|| open(via_rln));
    let (ms, sleeps) = zerokit_utils::verif::clock_remove();
    if let Some(f) = lock.borrow_mut().take() {
        let _ = f.unlock();
    }
    out.sim_ms = ms;
    out.sleeps = sleeps.clone();
    if !sleeps.is_empty() {
        out.counters.inc("reach.retry_loop_entered");
        out.counters.inc("fault.storage_lock_held_by_previous_owner");
        out.counters.add("lock_held_simulated_ms", release_ms.min(100_000));
    }
    out.counters.add("retry_sleeps", sleeps.len() as u64);
    match r {
        Err(p) => {
            out.violation = Some(("open_panic".into(), p));
        }
        Ok(Err(e)) => {
            if release_ms <= 1000 {
                out.violation = Some(("recreate_failed_although_lock_released_within_1s".into(), format!("lock released at {release_ms} ms simulated, error: {e}; sleeps {:?}", sleeps)));
            } else {
                out.counters.inc("reach.gave_up_on_long_lock");
            }
        }
        Ok(Ok(mut n)) => {
            if release_ms <= 1000 && ms > 60_000 {
                out.violation = Some(("recreate_not_in_bounded_time".into(), format!("{ms} ms simulated for a lock released at {release_ms} ms")));
                return out;
            }
            // the re-created instance still holds what was acknowledged and flushed before
            for (i, v) in &want {
                match n.read_leaf(*i) {
                    Ok(g) if g == *v => {}
                    other => {
                        out.violation = Some(("acknowledged_update_lost_on_contended_reopen".into(), format!("leaf {i} = {:?} after re-creating the instance while the lock was held for {release_ms} simulated ms (sleeps {:?})", other.map(|x| fr_to_json(&x)), sleeps)));
                        return out;
                    }
                }
            }
            let (r, hwm) = (n.read_root().unwrap_or_default(), n.observed_hwm());
            if r != want_root || hwm != want_hwm {
                out.violation = Some(("acknowledged_update_lost_on_contended_reopen".into(), format!("root or leaf count changed (leaves_set {hwm}, was {want_hwm}) after re-creating the instance while the lock was held for {release_ms} simulated ms (sleeps {:?})", sleeps)));
                return out;
            }
            out.counters.inc("oracle_evaluations");
        }
    }
    out
}

// ------------------------------------------------------------------------------------------------
// (a) transcript
// ------------------------------------------------------------------------------------------------

/// The documented derivation, written out independently of zerokit's own code: ChaCha20 keyed with Keccak-256(seed), field
/// elements drawn with arkworks' uniform sampler, Poseidon for the relations (proto::h).
pub fn reference_seeded_identity(seed: &[u8], extended: bool) -> Vec<u8> {
    use ark_std::UniformRand;
    use rand_chacha::rand_core::SeedableRng;
    use tiny_keccak::{Hasher, Keccak};
    let mut key = [0u8; 32];
    let mut k = Keccak::v256();
    k.update(seed);
    k.finalize(&mut key);
    let mut rng = rand_chacha::ChaCha20Rng::from_seed(key);
    let mut out = Vec::new();
    if extended {
        let t = Fr::rand(&mut rng);
        let n = Fr::rand(&mut rng);
        let s = h(&[t, n]);
        let c = h(&[s]);
        for f in [t, n, s, c] {
            out.extend_from_slice(&fr_to_le32(&f));
        }
    } else {
        let s = Fr::rand(&mut rng);
        let c = h(&[s]);
        out.extend_from_slice(&fr_to_le32(&s));
        out.extend_from_slice(&fr_to_le32(&c));
    }
    out
}

fn keccak256(b: &[u8]) -> Vec<u8> {
    use tiny_keccak::{Hasher, Keccak};
    let mut key = [0u8; 32];
    let mut k = Keccak::v256();
    k.update(b);
    k.finalize(&mut key);
    key.to_vec()
}

pub fn transcript(seed: u64) -> Vec<(String, String)> {
    use zerokit_utils::ZerokitMerkleTree;
    let mut t: Vec<(String, String)> = Vec::new();
    let mut rng = Prng::new(seed);
    // identities, all entry points
    let pinned: Vec<(&[u8], &str, &str)> = vec![
        (b"A seed phrase example", "20df38f3f00496f19fe7c6535492543b21798ed7cb91aebe4af8012db884eda3", "1223a78a5d66043a7f9863e14507dc80720a5602b2a894923e5b5147d5a9c325"),
        (&[0, 1, 2, 3, 4, 5, 6, 7, 8, 9], "0766ce6c7e7a01bdf5b3f257616f603918c30946fa23480f2859c597817e6716", "0bf16d2b5c0d6f9d9d561e05bfca16a81b4b873bb063508fae360d8c74cef51f"),
    ];
    for (seedb, s, c) in &pinned {
        let (a, b) = rln::protocol::seeded_keygen(seedb);
        let be = |f: &Fr| { let mut x = fr_to_le32(f).to_vec(); x.reverse(); hex(&x) };
        t.push((format!("pinned_seed {}", hex(seedb)), format!("{} {} match={}", be(&a), be(&b), be(&a) == *s && be(&b) == *c)));
    }
    let rln = RLN::new(20, Cursor::new("{}".to_string())).expect("rln");
    let mut seeds: Vec<Vec<u8>> = vec![Vec::new(), vec![0], rng.bytes(7), rng.bytes(32), rng.bytes(300), rng.bytes(1024), rng.bytes(1025), rng.bytes(4097)];
    // two long seeds that differ only in their last byte
    let mut twin = seeds[7].clone();
    *twin.last_mut().unwrap() ^= 1;
    seeds.push(twin);
    seeds.push(b"A seed phrase example".to_vec());
    // lengths around the 32-byte key size and the Keccak rate, and for a few seeds T the 32-byte seed Keccak-256(T)
    // (what T is turned into inside the derivation: a distinct seed, so a distinct identity)
    for n in [31usize, 33, 64, 135, 136, 137] {
        seeds.push(rng.bytes(n));
    }
    for k in [0usize, 2, 4, 9] {
        let hk = keccak256(&seeds[k]);
        seeds.push(hk);
    }
    for sd in &seeds {
        let rp = reference_seeded_identity(sd, false);
        let r4 = reference_seeded_identity(sd, true);
        let (a, b) = rln::protocol::seeded_keygen(sd);
        let (t4, n4, s4, c4) = rln::protocol::extended_seeded_keygen(sd);
        let mut got = fr_to_le32(&a).to_vec();
        got.extend_from_slice(&fr_to_le32(&b));
        let mut got4 = Vec::new();
        for f in [t4, n4, s4, c4] {
            got4.extend_from_slice(&fr_to_le32(&f));
        }
        t.push((format!("seeded_reference {} len={}", hex(&sd[..sd.len().min(8)]), sd.len()), format!("matches_reference={}", got == rp && got4 == r4)));
    }
    for sd in &seeds {
        let (a, b) = rln::protocol::seeded_keygen(sd);
        let mut p = fr_to_le32(&a).to_vec();
        p.extend_from_slice(&fr_to_le32(&b));
        let mut w = Vec::new();
        rln.seeded_key_gen(Cursor::new(sd.clone()), &mut w).expect("seeded_key_gen");
        let mut ob = rln::ffi::Buffer { ptr: std::ptr::null(), len: 0 };
        let ib = rln::ffi::Buffer { ptr: sd.as_ptr(), len: sd.len() };
        let ok = rln::ffi::seeded_key_gen(&rln as *const RLN, &ib, &mut ob);
        let f = if ok { unsafe { std::slice::from_raw_parts(ob.ptr, ob.len) }.to_vec() } else { Vec::new() };
        // the seed reaches RLN::seeded_key_gen through a stream: deliver it in pieces, with EINTR
        let mut streamed_ok = true;
        for plan in [
            crate::io::ReadPlan { chunk: 1, interrupts: vec![], fail_at: None, eof_at: None },
            crate::io::ReadPlan { chunk: 7, interrupts: vec![0, 2], fail_at: None, eof_at: None },
            crate::io::ReadPlan { chunk: 1000, interrupts: vec![1], fail_at: None, eof_at: None },
        ] {
            let mut ws = Vec::new();
            let mut rd = crate::io::SimReader::new(sd, plan);
            if rln.seeded_key_gen(&mut rd, &mut ws).is_err() || ws != p {
                streamed_ok = false;
            }
            let mut ws = Vec::new();
            let mut rd = crate::io::SimReader::new(sd, crate::io::ReadPlan { chunk: 33, interrupts: vec![0], fail_at: None, eof_at: None });
            let (a4, b4, c4, d4) = rln::protocol::extended_seeded_keygen(sd);
            let mut p4 = Vec::new();
            for x in [a4, b4, c4, d4] {
                p4.extend_from_slice(&fr_to_le32(&x));
            }
            if rln.seeded_extended_key_gen(&mut rd, &mut ws).is_err() || ws != p4 {
                streamed_ok = false;
            }
        }
        t.push((format!("seeded_keygen {} len={}", hex(&sd[..sd.len().min(8)]), sd.len()), format!("{} same_across_entry_points={} relations={:?}", hex(&p), p == w && w == f && streamed_ok, identity_relations(&p, 2).is_ok())));
        let (a, b, c, d) = rln::protocol::extended_seeded_keygen(sd);
        let mut p = Vec::new();
        for x in [a, b, c, d] {
            p.extend_from_slice(&fr_to_le32(&x));
        }
        let mut w = Vec::new();
        rln.seeded_extended_key_gen(Cursor::new(sd.clone()), &mut w).expect("seeded_extended_key_gen");
        let mut ob = rln::ffi::Buffer { ptr: std::ptr::null(), len: 0 };
        let ok = rln::ffi::seeded_extended_key_gen(&rln as *const RLN, &ib, &mut ob);
        let f = if ok { unsafe { std::slice::from_raw_parts(ob.ptr, ob.len) }.to_vec() } else { Vec::new() };
        t.push((format!("seeded_ext_keygen {} len={}", hex(&sd[..sd.len().min(8)]), sd.len()), format!("{} same_across_entry_points={} relations={:?}", hex(&p), p == w && w == f, identity_relations(&p, 4).is_ok())));
    }
    // an export that fails half-way (the caller's writer reports an error, or accepts no more bytes) must not leak into the next
    // one: each of the four byte-level generators is called with a failing writer, then again with a healthy one
    {
        use crate::io::{SimWriter, WritePlan};
        let sd_a = b"first seed, export fails".to_vec();
        let sd_b = b"second seed, export succeeds".to_vec();
        let mut all_ok = true;
        let mut detail = String::new();
        for which in 0..4u8 {
            for (fail_at, zero_at) in [(Some(0usize), None), (Some(40), None), (None, Some(33usize)), (Some(70), None)] {
                let mut bad = SimWriter::new(WritePlan { chunk: 16, interrupts: vec![], fail_at, zero_at });
                let r1 = match which {
                    0 => rln.key_gen(&mut bad),
                    1 => rln.extended_key_gen(&mut bad),
                    2 => rln.seeded_key_gen(Cursor::new(sd_a.clone()), &mut bad),
                    _ => rln.seeded_extended_key_gen(Cursor::new(sd_a.clone()), &mut bad),
                };
                let n = if which % 2 == 0 { 2 } else { 4 };
                let _ = r1; // whether and how the failure is reported is not C14's business
                let mut w = Vec::new();
                let r2 = match which {
                    0 => rln.key_gen(&mut w),
                    1 => rln.extended_key_gen(&mut w),
                    2 => rln.seeded_key_gen(Cursor::new(sd_b.clone()), &mut w),
                    _ => rln.seeded_extended_key_gen(Cursor::new(sd_b.clone()), &mut w),
                };
                let want = if which >= 2 { Some(reference_seeded_identity(&sd_b, which == 3)) } else { None };
                let good = r2.is_ok() && w.len() == 32 * n && identity_relations(&w, n).is_ok() && want.map(|x| x == w).unwrap_or(true);
                if !good {
                    all_ok = false;
                    detail = format!("generator {which}: after a failed export the next one returned {} bytes (expected {}), relations {:?}", w.len(), 32 * n, identity_relations(&w, n).is_ok());
                }
            }
        }
        t.push(("seeded_keygen after_failed_export".into(), format!("same_across_entry_points={all_ok} relations={all_ok} {detail}")));
    }
    // unseeded: relations and distinctness (values themselves are not part of the transcript)
    let mut ids: Vec<Vec<u8>> = Vec::new();
    for k in 0..6 {
        let mut w = Vec::new();
        match k % 3 {
            0 => { let (a, b) = rln::protocol::keygen(); w.extend_from_slice(&fr_to_le32(&a)); w.extend_from_slice(&fr_to_le32(&b)); }
            1 => { rln.key_gen(&mut w).expect("key_gen"); }
            _ => {
                let mut ob = rln::ffi::Buffer { ptr: std::ptr::null(), len: 0 };
                if rln::ffi::key_gen(&rln as *const RLN, &mut ob) { w = unsafe { std::slice::from_raw_parts(ob.ptr, ob.len) }.to_vec(); }
            }
        }
        t.push((format!("unseeded_keygen {k}"), format!("relations={:?}", identity_relations(&w, 2).is_ok())));
        ids.push(w);
    }
    for k in 0..3 {
        let mut w = Vec::new();
        if k == 0 { let (a, b, c, d) = rln::protocol::extended_keygen(); for x in [a, b, c, d] { w.extend_from_slice(&fr_to_le32(&x)); } } else { rln.extended_key_gen(&mut w).expect("extended_key_gen"); }
        t.push((format!("unseeded_ext_keygen {k}"), format!("relations={:?}", identity_relations(&w, 4).is_ok())));
        ids.push(w);
    }
    let distinct = { let mut s = std::collections::BTreeSet::new(); ids.iter().all(|x| s.insert(x.clone())) };
    t.push(("unseeded_distinct".into(), format!("{distinct}")));
    let distinct_seeded = { let mut s = std::collections::BTreeSet::new(); seeds.iter().all(|sd| { let (a, _) = rln::protocol::seeded_keygen(sd); s.insert(fr_to_le32(&a).to_vec()) }) };
    t.push(("seeded_distinct".into(), format!("{distinct_seeded}")));
    // hashes
    for n in [0usize, 1, 135, 136, 137, 1000] {
        let b = rng.bytes(n);
        t.push((format!("hash_to_field {n}"), hex(&fr_to_le32(&rln::hashers::hash_to_field(&b)))));
    }
    for n in 1..=8usize {
        let v: Vec<Fr> = (0..n).map(|_| fr_from_le(&rng.bytes(32))).collect();
        t.push((format!("poseidon {n}"), hex(&fr_to_le32(&rln::hashers::poseidon_hash(&v)))));
    }
    // batch updates (pmtree recomputes in a rayon pool sized by the global pool)
    #[cfg(feature = "pm")]
    {
        let mut pm = rln::pm_tree_adapter::PmTree::default(10).expect("pm");
        let vals: Vec<Fr> = (0..300).map(|_| fr_from_le(&rng.bytes(32))).collect();
        pm.set_range(5, vals.clone().into_iter()).expect("set_range");
        t.push(("pm depth10 set_range(5,300)".into(), hex(&fr_to_le32(&pm.root()))));
        // (write-only and removal-only batches: the mixed arm is an open known finding)
        pm.override_range(0, vals[..7].to_vec().into_iter(), Vec::<usize>::new().into_iter()).ok();
        pm.override_range(0, Vec::<Fr>::new().into_iter(), vec![100usize, 101, 250].into_iter()).ok();
        t.push(("pm depth10 override".into(), hex(&fr_to_le32(&pm.root()))));
        let mut pm20 = rln::pm_tree_adapter::PmTree::default(20).expect("pm20");
        pm20.set_range(1000, vals[..100].to_vec().into_iter()).expect("set_range");
        t.push(("pm depth20 set_range(1000,100)".into(), hex(&fr_to_le32(&pm20.root()))));
        let mut model = crate::model::IdealTree::new(20);
        model.set_range(1000, &vals[..100]);
        t.push(("pm depth20 equals ideal".into(), format!("{}", model.root() == pm20.root())));
    }
    // seeded tree histories (including rejected and boundary batches) on the persistent tree: outcome, root and
    // leaf count after every operation must not depend on the pool size
    #[cfg(feature = "pm")]
    {
        let known = std::collections::HashSet::new();
        for k in 0..6u64 {
            let g = crate::e1::GenCfg { big: false, prop: "C08".into(), allow_rln: false, allow_pm: true, allow_reopen: false, max_steps: 30, deep: false };
            let tr = crate::e1::generate(seed.wrapping_mul(31).wrapping_add(k), &g);
            let dir = std::env::temp_dir().join(format!("zk-tr-{}-{}", std::process::id(), k));
            let mut ctx = crate::e1::Ctx::new("", &known, &dir);
            let mut line = String::new();
            if let Ok(mut node) = crate::e1::Node::create("pm", tr.depth, &tr.store, &dir) {
                for st in &tr.steps {
                    if matches!(st.op, crate::e1::Op::Reopen { .. } | crate::e1::Op::Flush) {
                        continue;
                    }
                    // the state-corrupting shape of the mixed batch arm is an open known finding (it may panic)
                    if crate::e1::matching_signatures("pm", &st.op, &node.model).contains(&"pm_batch_mixed") {
                        continue;
                    }
                    let r = guarded(|| node.apply(st, &crate::io::ReadPlan::clean(), &tr.store, &mut ctx));
                    let tag = match r { Ok(Ok(())) => "O", Ok(Err(_)) => "E", Err(_) => "P" };
                    let root = node.read_root().map(|x| hex(&fr_to_le32(&x)[..6])).unwrap_or_default();
                    line.push_str(&format!("{}{}:{}:{} ", st.op.kind().chars().next().unwrap_or('?'), tag, root, node.observed_hwm()));
                }
            }
            let _ = std::fs::remove_dir_all(&dir);
            t.push((format!("pm history {k} depth {}", tr.depth), format!("{:016x} {}", fnv_bytes(line.as_bytes()), &line[..line.len().min(90)])));
        }
    }
    // witness, witness map, proof values, verdicts
    let mut rln = rln;
    let secret = fr_from_le(&rng.bytes(32));
    let limit = Fr::from(100u64);
    let index = 1usize << 19;
    rln.set_leaf(index, Cursor::new(fr_to_le32(&rate_commitment(&secret, &limit)).to_vec())).expect("set_leaf");
    let signal = rng.bytes(33);
    let req = enc_request(&secret, index as u64, &limit, &Fr::from(3u64), &Fr::from(9u64), &signal);
    let wit = rln.get_serialized_rln_witness(Cursor::new(req.clone())).expect("witness");
    t.push(("serialized_witness".into(), format!("{:016x}", fnv_bytes(&wit))));
    let (wi, _) = rln::protocol::deserialize_witness(&wit).expect("deserialize");
    let inputs = rln::protocol::inputs_for_witness_calculation(&wi).expect("inputs").into_iter().map(|(k, v)| (k.to_string(), v));
    let full: Vec<Fr> = crate::e2::into_witness_pub(rln::circuit::calculate_rln_witness(inputs, rln::circuit::graph_from_folder())).expect("calc");
    let mut f = Fnv::new();
    for x in &full {
        f.add_fr(x);
    }
    t.push(("witness_vector".into(), format!("len={} digest={:016x}", full.len(), f.0)));
    {
        use ark_groth16::r1cs_to_qap::R1CSToQAP;
        let zk = rln::circuit::zkey_from_folder();
        let hvec = rln::circuit::qap::CircomReduction::witness_map_from_matrices::<Fr, ark_poly::GeneralEvaluationDomain<Fr>>(
            &zk.1, zk.1.num_instance_variables, zk.1.num_constraints, &full).expect("witness map");
        let mut f = Fnv::new();
        for x in &hvec {
            f.add_fr(x);
        }
        t.push(("witness_map".into(), format!("len={} digest={:016x}", hvec.len(), f.0)));
    }
    let mut msg = Vec::new();
    rln.generate_rln_proof(Cursor::new(req), &mut msg).expect("prove");
    t.push(("proof_values".into(), hex(&msg[128..])));
    let v1 = rln.verify_rln_proof(Cursor::new(enc_verify_input(&msg, &signal))).ok();
    let v2 = rln.verify(Cursor::new(msg.clone())).ok();
    let mut bad = msg.clone();
    bad[200] ^= 1;
    let v3 = rln.verify_rln_proof(Cursor::new(enc_verify_input(&bad, &signal))).ok();
    t.push(("verdicts".into(), format!("{:?} {:?} {:?}", v1, v2, v3)));
    t
}

fn fnv_bytes(b: &[u8]) -> u64 {
    let mut f = Fnv::new();
    f.add(b);
    f.0
}


// ------------------------------------------------------------------------------------------------
// Another valid key for the same circuit: the bundled snarkjs key after one more contribution to delta (delta multiplied by k,
// the L and H queries by 1/k) - what a deployment holds after a key rotation. Construction adapted from the demonstration of the
// independent seeded change s9-C18.
// ------------------------------------------------------------------------------------------------

#[cfg(not(feature = "arkzkey"))]
pub fn rotated_zkey(k: Fr) -> Vec<u8> {
    use ark_bn254::{Fq, Fq2, G1Affine, G2Affine};
    use ark_ec::{AffineRepr, CurveGroup};
    use ark_ff::{BigInt, Field, Zero};
    fn read_fq(b: &[u8]) -> Fq {
        let mut limbs = [0u64; 4];
        for (i, limb) in limbs.iter_mut().enumerate() {
            *limb = u64::from_le_bytes(b[8 * i..8 * i + 8].try_into().unwrap());
        }
        Fq::new_unchecked(BigInt::new(limbs))
    }
    fn write_fq(v: &Fq, b: &mut [u8]) {
        for (i, limb) in (v.0).0.iter().enumerate() {
            b[8 * i..8 * i + 8].copy_from_slice(&limb.to_le_bytes());
        }
    }
    fn read_g1(b: &[u8]) -> G1Affine {
        let (x, y) = (read_fq(&b[..32]), read_fq(&b[32..64]));
        if x.is_zero() && y.is_zero() { G1Affine::identity() } else { G1Affine::new_unchecked(x, y) }
    }
    fn write_g1(p: &G1Affine, b: &mut [u8]) {
        if p.is_zero() {
            b[..64].fill(0);
        } else {
            write_fq(&p.x, &mut b[..32]);
            write_fq(&p.y, &mut b[32..64]);
        }
    }
    fn read_g2(b: &[u8]) -> G2Affine {
        let x = Fq2::new(read_fq(&b[..32]), read_fq(&b[32..64]));
        let y = Fq2::new(read_fq(&b[64..96]), read_fq(&b[96..128]));
        G2Affine::new_unchecked(x, y)
    }
    fn write_g2(p: &G2Affine, b: &mut [u8]) {
        write_fq(&p.x.c0, &mut b[..32]);
        write_fq(&p.x.c1, &mut b[32..64]);
        write_fq(&p.y.c0, &mut b[64..96]);
        write_fq(&p.y.c1, &mut b[96..128]);
    }
    let mut zkey = rln::circuit::ZKEY_BYTES.to_vec();
    // sections: id<4> size<8> data
    let n = u32::from_le_bytes(zkey[8..12].try_into().unwrap());
    let mut pos = 12usize;
    let mut sections: BTreeMap<u32, (usize, usize)> = BTreeMap::new();
    for _ in 0..n {
        let id = u32::from_le_bytes(zkey[pos..pos + 4].try_into().unwrap());
        let size = u64::from_le_bytes(zkey[pos + 4..pos + 12].try_into().unwrap()) as usize;
        pos += 12;
        sections.insert(id, (pos, size));
        pos += size;
    }
    let k_inv = k.inverse().unwrap();
    // header (section 2): n8q<4> q<32> n8r<4> r<32> nVars<4> nPublic<4> domainSize<4> alpha_g1<64> beta_g1<64> beta_g2<128>
    // gamma_g2<128> delta_g1<64> delta_g2<128>
    let (header, _) = sections[&2];
    let delta_g1_at = header + 84 + 64 + 64 + 128 + 128;
    let delta_g2_at = delta_g1_at + 64;
    let d1 = (read_g1(&zkey[delta_g1_at..]) * k).into_affine();
    write_g1(&d1, &mut zkey[delta_g1_at..]);
    let d2 = (read_g2(&zkey[delta_g2_at..]) * k).into_affine();
    write_g2(&d2, &mut zkey[delta_g2_at..]);
    for id in [8u32, 9u32] {
        let (start, size) = sections[&id];
        let mut at = start;
        while at + 64 <= start + size {
            let p = (read_g1(&zkey[at..]) * k_inv).into_affine();
            write_g1(&p, &mut zkey[at..]);
            at += 64;
        }
    }
    zkey
}
