//! simworker — the simulation worker. One process runs many seeded simulations (batch), replays a
//! trace file (run), or prints the trace a seed generates (gen).

mod io;
mod model;
mod prng;
mod serve;
mod util;
#[cfg(feature = "pm")]
mod e4;

#[cfg(not(feature = "stateless"))]
mod e1;
#[cfg(feature = "pm")]
mod e1_store;
#[cfg(not(feature = "stateless"))]
mod e2;
#[cfg(not(feature = "stateless"))]
mod e2gen;
#[cfg(feature = "pm")]
mod e3;
#[cfg(feature = "pm")]
mod e5;
#[cfg(not(feature = "stateless"))]
mod proto;

use serde_json::{json, Value};
use std::cell::RefCell;
use std::collections::{HashMap, HashSet};
use std::sync::atomic::{AtomicBool, AtomicU64, Ordering};
use std::sync::Mutex;

thread_local! {
    pub static LAST_PANIC: RefCell<Option<String>> = RefCell::new(None);
}

fn install_panic_hook() {
    std::panic::set_hook(Box::new(|info| {
        let msg = if let Some(s) = info.payload().downcast_ref::<&str>() {
            s.to_string()
        } else if let Some(s) = info.payload().downcast_ref::<String>() {
            s.clone()
        } else {
            "panic".to_string()
        };
        let loc = info
            .location()
            .map(|l| {
                let f = l.file();
                let short = f.rsplit("/").take(3).collect::<Vec<_>>().into_iter().rev().collect::<Vec<_>>().join("/");
                format!(" at {}:{}", short, l.line())
            })
            .unwrap_or_default();
        if std::env::var_os("ZKSIM_PANIC_LOG").is_some() {
            eprintln!("panic: {msg}{loc}");
        }
        LAST_PANIC.with(|p| *p.borrow_mut() = Some(format!("{msg}{loc}")));
    }));
}

pub struct Args {
    pub cmd: String,
    pub kv: HashMap<String, String>,
}

impl Args {
    fn parse() -> Args {
        let mut it = std::env::args().skip(1);
        let cmd = it.next().unwrap_or_else(|| "help".to_string());
        let mut kv = HashMap::new();
        let rest: Vec<String> = it.collect();
        let mut i = 0;
        while i < rest.len() {
            if let Some(k) = rest[i].strip_prefix("--") {
                if i + 1 < rest.len() && !rest[i + 1].starts_with("--") {
                    kv.insert(k.to_string(), rest[i + 1].clone());
                    i += 2;
                } else {
                    kv.insert(k.to_string(), "true".to_string());
                    i += 1;
                }
            } else {
                i += 1;
            }
        }
        Args { cmd, kv }
    }
    pub fn get(&self, k: &str) -> Option<&str> {
        self.kv.get(k).map(|s| s.as_str())
    }
    pub fn u64(&self, k: &str, d: u64) -> u64 {
        self.get(k).and_then(|s| s.parse().ok()).unwrap_or(d)
    }
    pub fn flag(&self, k: &str) -> bool {
        self.kv.contains_key(k)
    }
    pub fn known(&self) -> HashSet<String> {
        self.get("known")
            .map(|s| s.split(',').filter(|x| !x.is_empty()).map(|x| x.to_string()).collect())
            .unwrap_or_default()
    }
}

fn main() {
    install_panic_hook();
    let args = Args::parse();
    let code = match args.cmd.as_str() {
        "batch" => batch(&args),
        "run" => run_one(&args),
        "gen" => gen_one(&args),
        "selftest-model" => selftest_model(),
        #[cfg(feature = "pm")]
        "leakprobe" => leakprobe(&args),
        "serve" => serve::serve(),
        #[cfg(feature = "pm")]
        "crash-child" => {
            let txt = std::fs::read_to_string(args.get("trace").unwrap_or("")).unwrap_or_default();
            let tv: Value = serde_json::from_str(&txt).unwrap_or(Value::Null);
            e1_store::crash_child(&tv, args.u64("exit-at", 1), std::path::Path::new(args.get("ack").unwrap_or("/dev/null")), std::path::Path::new(args.get("scratch").unwrap_or("/tmp")))
        }
        #[cfg(feature = "pm")]
        "transcript" => {
            let t = match util::guarded(|| e5::transcript(args.u64("seed", 1))) {
                Ok(t) => t,
                Err(p) => {
                    eprintln!("transcript panicked: {p}");
                    vec![("PANIC".to_string(), p)]
                }
            };
            let v: Vec<Value> = t.into_iter().map(|(k, v)| json!([k, v])).collect();
            write_out(&args, &json!({"transcript": v, "rayon_threads": rayon::current_num_threads()}));
            0
        }
        _ => {
            eprintln!("usage: simworker batch|run|gen|selftest-model --engine e1 --prop Cxx ...");
            2
        }
    };
    std::process::exit(code);
}

fn write_out(args: &Args, v: &Value) {
    let s = serde_json::to_string(v).unwrap();
    match args.get("out") {
        Some(p) => std::fs::write(p, s).expect("write out"),
        None => println!("{s}"),
    }
}

fn scratch_base(args: &Args) -> std::path::PathBuf {
    let p = args
        .get("scratch")
        .map(std::path::PathBuf::from)
        .unwrap_or_else(|| std::env::temp_dir().join(format!("zksim-{}", std::process::id())));
    let _ = std::fs::create_dir_all(&p);
    p
}

// ------------------------------------------------------------------------------------------------

#[derive(Default)]
struct Agg {
    runs: u64,
    steps: u64,
    counters: util::Counters,
    violations: Vec<Value>,
    harness_errors: Vec<String>,
    traces: HashSet<u64>,
    nontrivial: HashSet<u64>,
    states: HashSet<u64>,
    samples: Vec<Value>,
    logs: Vec<(u64, u64)>,
    alterations: u64,
}

#[cfg(not(feature = "stateless"))]
fn e1_gencfg(args: &Args, prop: &str) -> e1::GenCfg {
    let tier = args.get("tier").unwrap_or("quick");
    e1::GenCfg {
        big: args.flag("big"),
        prop: prop.to_string(),
        allow_rln: !args.flag("no-rln"),
        allow_pm: cfg!(feature = "pm") && !args.flag("no-pm"),
        allow_reopen: matches!(prop, "C15" | "C16") || args.flag("reopen"),
        max_steps: args.u64("max-steps", if tier == "thorough" { 60 } else { 40 }) as usize,
        deep: tier == "thorough" || args.flag("deep"),
    }
}

fn batch(args: &Args) -> i32 {
    let engine = args.get("engine").unwrap_or("e1").to_string();
    let prop = args.get("prop").unwrap_or("C06").to_string();
    let seed = args.u64("seed", 1);
    let from = args.u64("from", 0);
    let to = args.u64("to", 100);
    let threads = args.u64("threads", 4).max(1);
    let known = args.known();
    let max_viol = args.u64("max-violations", 3);
    let want_logs = args.flag("logs");
    let budget_s = args.u64("budget-s", 0);
    let base = scratch_base(args);
    let next = AtomicU64::new(from);
    let seeds_done = AtomicU64::new(0);
    let out_of_time = AtomicBool::new(false);
    let stop = AtomicBool::new(false);
    let agg = Mutex::new(Agg::default());
    let t0 = std::time::Instant::now();

    std::thread::scope(|sc| {
        for ti in 0..threads {
            let (next, stop, agg, known, base, engine, prop) = (&next, &stop, &agg, &known, &base, &engine, &prop);
            let (seeds_done, out_of_time) = (&seeds_done, &out_of_time);
            sc.spawn(move || {
                let mut local = Agg::default();
                #[cfg(feature = "pm")]
                let mut e4_peers: Option<Vec<e4::Peer>> = None;
                loop {
                    if stop.load(Ordering::Relaxed) {
                        break;
                    }
                    if budget_s > 0 && t0.elapsed().as_secs() >= budget_s {
                        // wall-clock cap per batch: stop starting new seeds, report what was done
                        if next.load(Ordering::Relaxed) < to {
                            out_of_time.store(true, Ordering::Relaxed);
                        }
                        break;
                    }
                    let i = next.fetch_add(1, Ordering::Relaxed);
                    if i >= to {
                        break;
                    }
                    let run_seed = prng::mix(seed, &format!("{engine}/{prop}"), i);
                    let dir = base.join(format!("t{ti}"));
                    match engine.as_str() {
                        #[cfg(not(feature = "stateless"))]
                        "e1" => run_e1(args, prop, run_seed, known, &dir, &mut local, want_logs),
                        #[cfg(feature = "pm")]
                        "e1store" => run_e1store(args, run_seed, known, &dir, &mut local, want_logs),
                        #[cfg(not(feature = "stateless"))]
                        "e2" => run_e2(args, prop, run_seed, known, &mut local, want_logs),
                        #[cfg(feature = "pm")]
                        "e3" => run_e3(args, run_seed, &mut local, want_logs),
                        #[cfg(feature = "pm")]
                        "e4" => run_e4(args, run_seed, &dir, &mut local, &mut e4_peers, want_logs),
                        #[cfg(feature = "pm")]
                        "e5b" => run_e5b(args, prop, run_seed, &mut local, want_logs),
                        #[cfg(feature = "pm")]
                        "e5d" => run_e5d(args, prop, i, run_seed, &dir, &mut local),
                        _ => {
                            local.harness_errors.push(format!("unknown engine {engine}"));
                            break;
                        }
                    }
                    seeds_done.fetch_add(1, Ordering::Relaxed);
                    // the persistent tree's batch insertion allocates gigabytes for a write far to the right of a deep tree; glibc
                    // keeps the freed pages in the thread's arena, so hand them back before the next seed
                    trim_heap();
                    if std::env::var("ZKSIM_RSS").is_ok() {
                        // development aid: resident set size after each seed
                        let st = std::fs::read_to_string("/proc/self/statm").unwrap_or_default();
                        let mb = st.split_whitespace().nth(1).and_then(|x| x.parse::<u64>().ok()).unwrap_or(0) * 4096 / (1 << 20);
                        eprintln!("rss after seed index {i} ({run_seed}): {mb} MB");
                    }
                    if local.violations.len() as u64 >= max_viol || !local.harness_errors.is_empty() {
                        stop.store(true, Ordering::Relaxed);
                    }
                }
                let mut a = agg.lock().unwrap();
                a.runs += local.runs;
                a.steps += local.steps;
                a.counters.merge(&local.counters);
                a.violations.extend(local.violations);
                a.harness_errors.extend(local.harness_errors);
                a.traces.extend(local.traces);
                a.nontrivial.extend(local.nontrivial);
                a.states.extend(local.states);
                a.alterations += local.alterations;
                for s in local.samples {
                    if a.samples.len() < 4 {
                        a.samples.push(s);
                    }
                }
                a.logs.extend(local.logs);
            });
        }
    });
    let _ = std::fs::remove_dir_all(&base);
    let mut a = agg.into_inner().unwrap();
    a.logs.sort();
    let out = json!({
        "engine": engine,
        "property": prop,
        "seed": seed,
        "from": from,
        "to": to,
        "seeds_done": seeds_done.load(Ordering::Relaxed),
        "stopped_by_time_budget": out_of_time.load(Ordering::Relaxed),
        "runs": a.runs,
        "steps": a.steps,
        "counters": a.counters.to_json(),
        "violations": a.violations,
        "harness_errors": a.harness_errors,
        "distinct_traces": a.traces.len(),
        "distinct_nontrivial": a.nontrivial.len(),
        "distinct_states": a.states.len(),
        "alterations": a.alterations,
        "samples": a.samples,
        "logs": a.logs.iter().map(|(s, h)| json!([s.to_string(), h.to_string()])).collect::<Vec<_>>(),
        "wall_s": t0.elapsed().as_secs_f64(),
        "features": feature_string(),
    });
    write_out(args, &out);
    0
}

pub fn feature_string() -> String {
    let mut f = Vec::new();
    if cfg!(feature = "pm") {
        f.push("pm");
    }
    if cfg!(feature = "full") {
        f.push("full");
    }
    if cfg!(feature = "arkzkey") {
        f.push("arkzkey");
    }
    if cfg!(feature = "stateless") {
        f.push("stateless");
    }
    if f.is_empty() {
        f.push("nodefault");
    }
    f.join("+")
}

#[cfg(not(feature = "stateless"))]
fn run_e1(args: &Args, prop: &str, run_seed: u64, known: &HashSet<String>, dir: &std::path::Path, local: &mut Agg, want_logs: bool) {
    let g = e1_gencfg(args, prop);
    let trace = e1::generate(run_seed, &g);
    let mut ctx = e1::Ctx::new(prop, known, dir);
    let out = e1::run_trace(&trace, &mut ctx);
    local.runs += 1;
    local.steps += trace.steps.len() as u64;
    local.counters.merge(&ctx.counters);
    local.alterations += ctx.alterations;
    let d = trace.digest();
    local.traces.insert(d);
    let evals = ctx.counters.0.get("oracle_evaluations").copied().unwrap_or(0);
    if evals > 0 && ctx.states.len() > 1 {
        local.nontrivial.insert(d);
    }
    local.states.extend(ctx.states.iter().copied());
    if want_logs {
        local.logs.push((run_seed, ctx.log.0));
    }
    if local.samples.len() < 2 && trace.steps.len() <= 12 {
        local.samples.push(trace.to_json());
    }
    if let Some(e) = out.harness_error {
        local.harness_errors.push(format!("seed {run_seed}: {e}"));
    }
    if let Some(v) = out.violation {
        let class = v.class();
        let (min, used) = e1::shrink(&trace, &class, known, dir, args.u64("shrink-budget", 300) as usize);
        // final verdict of the minimised trace
        let mut c2 = e1::Ctx::new(prop, known, dir);
        let o2 = e1::run_trace(&min, &mut c2);
        let v2 = o2.violation.unwrap_or(v.clone());
        local.violations.push(json!({
            "violation": v2.to_json(),
            "original_violation": v.to_json(),
            "trace": min.to_json(),
            "original_trace": trace.to_json(),
            "original_steps": trace.steps.len(),
            "shrink_runs": used,
            "seed": run_seed.to_string(),
        }));
    }
}

#[cfg(feature = "pm")]
fn run_e1store(args: &Args, run_seed: u64, known: &HashSet<String>, dir: &std::path::Path, local: &mut Agg, want_logs: bool) {
    let thorough = args.get("tier") == Some("thorough");
    let trace = e1_store::generate_c16_profile(run_seed, thorough, known, args.flag("crash") && run_seed % 2 == 0);
    let d = trace.digest();
    local.traces.insert(d);
    if local.samples.len() < 2 && trace.steps.len() <= 8 {
        local.samples.push(e1_store::replay_json(&trace, Some((3, false))));
    }
    if args.flag("configs") {
        let (v, c) = e1_store::config_probes(dir, run_seed);
        local.runs += 1;
        local.counters.merge(&c);
        local.nontrivial.insert(run_seed);
        if let Some(v) = v {
            local.violations.push(json!({
                "violation": v.to_json(),
                "trace": {"engine":"e1store","property":"C16","config_probe_seed":run_seed.to_string(),"depth":3,"nodes":["rlnp"],"steps":[],"store":{}},
                "original_steps": 0, "shrink_runs": 0, "seed": run_seed.to_string(),
            }));
        }
        return;
    }
    if args.flag("crash") {
        // the history in a child process that exits at storage write k, for every k it reaches
        let mut t = trace.clone();
        t.nodes = vec![if run_seed % 7 == 0 { "rlnp".to_string() } else { "pmp".to_string() }];
        let mut k = 1u64;
        loop {
            let r = e1_store::run_crash(&t, k, dir);
            local.runs += 1;
            local.steps += t.steps.len() as u64;
            local.counters.merge(&r.counters);
            if let Some(e) = r.harness_error {
                local.harness_errors.push(format!("seed {run_seed} k={k}: {e}"));
                break;
            }
            if let Some(v) = r.violation {
                let (min, mk, used) = e1_store::shrink_crash(&t, k, &v.class(), dir, args.u64("shrink-budget", 400) as usize);
                local.violations.push(json!({
                    "violation": v.to_json(),
                    "trace": e1_store::crash_replay_json(&min, mk),
                    "original_steps": t.steps.len(),
                    "shrink_runs": used,
                    "seed": run_seed.to_string(),
                }));
                break;
            }
            if !r.exited_at_k || k >= args.u64("max-k", 150) {
                break;
            }
            local.nontrivial.insert(d ^ (k << 20));
            k += 1;
        }
        return;
    }
    if args.flag("l2") {
        // one real sled write failure per run (process-global failpoint: single-threaded batch)
        let mut rng = prng::Prng::new(run_seed ^ 0x5151);
        let after = rng.usize_below(trace.steps.len().max(1));
        let bits = *rng.pick(&[1u64, 1, 2, 4, 0b101, 0xff, u64::MAX]);
        let r = e1_store::run_l2(&trace, bits, after, dir);
        local.runs += 1;
        local.steps += trace.steps.len() as u64;
        local.counters.merge(&r.counters);
        if r.poisoned {
            local.nontrivial.insert(d ^ bits ^ (after as u64) << 32);
        }
        if let Some(e) = r.harness_error {
            local.harness_errors.push(format!("seed {run_seed}: {e}"));
        }
        if let Some(v) = r.violation {
            let (min, ma, used) = e1_store::shrink_l2(&trace, bits, after, &v.class(), dir, args.u64("shrink-budget", 120) as usize);
            local.violations.push(json!({
                "violation": v.to_json(),
                "trace": e1_store::l2_replay_json(&min, bits, ma),
                "original_steps": trace.steps.len(),
                "shrink_runs": used,
                "seed": run_seed.to_string(),
            }));
        }
        return;
    }
    let mut states = HashSet::new();
    let r = e1_store::run_history(&trace, known, dir, &mut local.counters, &mut states, args.u64("max-k", 400));
    local.states.extend(states);
    local.runs += 1 + r.fault_runs;
    local.steps += trace.steps.len() as u64 * (1 + r.fault_runs);
    local.nontrivial.extend(r.nontrivial.iter().copied());
    if want_logs {
        let mut f = util::Fnv::new();
        f.add_u64(r.fault_runs);
        f.add_u64(r.fired);
        for x in &r.nontrivial {
            f.add_u64(*x);
        }
        f.add_u64(r.violation.is_some() as u64);
        local.logs.push((run_seed, f.0));
    }
    if let Some(e) = r.harness_error {
        local.harness_errors.push(format!("seed {run_seed}: {e}"));
    }
    if let Some((v, replay)) = r.violation {
        let class = v.class();
        let fault = replay["storage_fault"]["k"].as_u64().map(|k| (k, replay["storage_fault"]["sticky"].as_bool().unwrap_or(false)));
        let (min, mf, used) = e1_store::shrink_c16(&trace, fault, &class, known, dir, args.u64("shrink-budget", 400) as usize);
        let rj = e1_store::replay_json(&min, mf);
        let (v2, _, _, _) = e1_store::run_replay(&rj, known, dir);
        local.violations.push(json!({
            "violation": v2.unwrap_or(v.clone()).to_json(),
            "original_violation": v.to_json(),
            "trace": rj,
            "original_steps": trace.steps.len(),
            "shrink_runs": used,
            "seed": run_seed.to_string(),
        }));
    }
}

#[cfg(not(feature = "stateless"))]
fn run_e2(args: &Args, prop: &str, run_seed: u64, known: &HashSet<String>, local: &mut Agg, want_logs: bool) {
    let thorough = args.get("tier") == Some("thorough");
    let trace = e2gen::generate(prop, run_seed, thorough);
    let mut ctx = e2::Ctx::new(prop, known);
    let out = e2::run_trace(&trace, &mut ctx);
    local.runs += 1;
    local.steps += trace.steps.len() as u64;
    ctx.counters.add("proofs_generated", ctx.proofs);
    ctx.counters.add("oracle_evaluations", ctx.deliveries + ctx.counters.0.get("recover_calls").copied().unwrap_or(0));
    local.counters.merge(&ctx.counters);
    let d = trace.digest();
    local.traces.insert(d);
    if ctx.proofs > 0 || ctx.counters.0.get("recover_calls").copied().unwrap_or(0) > 0 || ctx.counters.0.get("prove_rejected").copied().unwrap_or(0) > 0 {
        local.nontrivial.insert(d);
    }
    if want_logs {
        local.logs.push((run_seed, ctx.log.0));
    }
    if local.samples.len() < 1 {
        let mut t = trace.clone();
        t.steps.truncate(6);
        local.samples.push(t.to_json());
    }
    if let Some(e) = out.harness_error {
        local.harness_errors.push(format!("seed {run_seed}: {e}"));
    }
    if let Some(v) = out.violation {
        let class = v.class();
        let (min, used) = e2::shrink(&trace, &class, known, args.u64("shrink-budget", 40) as usize);
        let mut c2 = e2::Ctx::new(prop, known);
        let v2 = e2::run_trace(&min, &mut c2).violation.unwrap_or(v.clone());
        local.violations.push(json!({
            "violation": v2.to_json(),
            "original_violation": v.to_json(),
            "trace": min.to_json(),
            "original_trace": trace.to_json(),
            "original_steps": trace.steps.len(),
            "shrink_runs": used,
            "seed": run_seed.to_string(),
        }));
    }
}

#[cfg(feature = "pm")]
fn run_e3(args: &Args, run_seed: u64, local: &mut Agg, want_logs: bool) {
    let thorough = args.get("tier") == Some("thorough");
    let trace = e3::generate(run_seed, thorough);
    let mut ctx = e3::Ctx { counters: util::Counters::default(), log: util::Fnv::new() };
    let out = e3::run_trace(&trace, &mut ctx);
    local.runs += 1;
    local.steps += trace.steps.len() as u64;
    local.counters.merge(&ctx.counters);
    let d = trace.digest();
    local.traces.insert(d);
    if ctx.counters.0.get("oracle_evaluations").copied().unwrap_or(0) >= 3 {
        local.nontrivial.insert(d);
    }
    if want_logs {
        local.logs.push((run_seed, ctx.log.0));
    }
    if local.samples.len() < 1 {
        let mut t = trace.clone();
        t.steps.truncate(8);
        local.samples.push(t.to_json());
    }
    if let Some(e) = out.harness_error {
        local.harness_errors.push(format!("seed {run_seed}: {e}"));
    }
    if let Some(v) = out.violation {
        let (min, used) = e3::shrink(&trace, &v.class(), args.u64("shrink-budget", 80) as usize);
        let mut c2 = e3::Ctx { counters: util::Counters::default(), log: util::Fnv::new() };
        let v2 = e3::run_trace(&min, &mut c2).violation.unwrap_or(v.clone());
        local.violations.push(json!({
            "violation": v2.to_json(),
            "original_violation": v.to_json(),
            "trace": min.to_json(),
            "original_trace": trace.to_json(),
            "original_steps": trace.steps.len(),
            "shrink_runs": used,
            "seed": run_seed.to_string(),
        }));
    }
}

#[cfg(feature = "pm")]
fn e4_spawn(args: &Args, dir: &std::path::Path) -> Result<Vec<e4::Peer>, String> {
    let _ = std::fs::create_dir_all(dir);
    let mut peers = vec![e4::Peer::local("default")];
    for spec in args.get("peers").unwrap_or("").split(',').filter(|x| !x.is_empty()) {
        let (name, bin) = spec.split_once('=').ok_or("bad --peers")?;
        peers.push(e4::Peer::spawn(name, bin, dir, &std::env::var("RAYON_NUM_THREADS").unwrap_or("1".into()))?);
    }
    Ok(peers)
}

#[cfg(feature = "pm")]
fn run_e4(args: &Args, run_seed: u64, dir: &std::path::Path, local: &mut Agg, peers: &mut Option<Vec<e4::Peer>>, want_logs: bool) {
    if peers.is_none() {
        match e4_spawn(args, dir) {
            Ok(mut p) => {
                match e4::check_keys(&mut p) {
                    Ok(c) => local.counters.merge(&c),
                    Err((clause, detail)) => {
                        local.violations.push(json!({
                            "violation": {"property":"C17","clause":clause,"detail":detail,"class":format!("C17|keys|{clause}")},
                            "trace": {"engine":"e4","property":"C17","seed":0,"peers":p.iter().map(|x| x.name.clone()).collect::<Vec<_>>(),"members":[],"events":[],"keys_only":true},
                            "original_steps": 0, "shrink_runs": 0, "seed": "keys",
                        }));
                    }
                }
                *peers = Some(p);
            }
            Err(e) => {
                local.harness_errors.push(format!("cannot start peers: {e}"));
                return;
            }
        }
    }
    let ps = peers.as_mut().unwrap();
    let names: Vec<String> = ps.iter().map(|p| p.name.clone()).collect();
    let trace = e4::generate(run_seed, &names);
    let o = e4::run(&trace, ps);
    local.runs += 1;
    local.steps += trace.events.len() as u64;
    local.counters.merge(&o.counters);
    let d = trace.digest();
    local.traces.insert(d);
    if o.counters.0.get("proofs_generated").copied().unwrap_or(0) > 0 {
        local.nontrivial.insert(d);
    }
    if want_logs {
        local.logs.push((run_seed, o.log));
    }
    if local.samples.len() < 1 {
        local.samples.push(trace.to_json());
    }
    if let Some(e) = o.harness_error {
        local.harness_errors.push(format!("seed {run_seed}: {e}"));
    }
    if let Some((clause, detail, _ei)) = o.violation {
        let (min, used) = e4::shrink(&trace, &clause, ps, args.u64("shrink-budget", 12) as usize);
        local.violations.push(json!({
            "violation": {"property":"C17","clause":clause,"detail":detail,"class":format!("C17|e4|{clause}")},
            "trace": min.to_json(),
            "original_steps": trace.events.len(),
            "shrink_runs": used,
            "seed": run_seed.to_string(),
        }));
    }
}

#[cfg(feature = "pm")]
static FIRST_BATON_RUN: AtomicBool = AtomicBool::new(true);

#[cfg(feature = "pm")]
fn run_e5b(args: &Args, prop: &str, run_seed: u64, local: &mut Agg, want_logs: bool) {
    let thorough = args.get("tier") == Some("thorough");
    let trace = e5::generate_baton(run_seed, thorough, prop == "C14");
    let cold = FIRST_BATON_RUN.swap(false, Ordering::SeqCst);
    let out = e5::run_baton(&trace, prop, cold);
    local.runs += 1;
    local.steps += (trace.cold.iter().map(|s| s.len()).sum::<usize>() + trace.shared.iter().map(|s| s.len()).sum::<usize>()) as u64;
    local.counters.merge(&out.counters);
    local.traces.insert(trace.digest());
    // distinct interleavings: digest of the two recorded schedules
    if out.counters.0.get("thread_switches").copied().unwrap_or(0) > 0 {
        local.nontrivial.insert(out.schedule_digest);
    }
    local.states.insert(out.schedule_digest);
    if want_logs {
        local.logs.push((run_seed, out.log ^ out.schedule_digest));
    }
    if local.samples.len() < 1 {
        local.samples.push(out.trace_with_schedule.to_json());
    }
    if let Some(e) = out.harness_error {
        local.harness_errors.push(format!("seed {run_seed}: {e}"));
    }
    if let Some(v) = out.violation {
        // minimise: fewer calls per thread while the recorded schedule still reproduces the class
        let mut best = out.trace_with_schedule.clone();
        let class = v.class();
        let mut used = 0;
        let budget = args.u64("shrink-budget", 30) as usize;
        'outer: for phase in 0..2 {
            let nthreads = best.threads;
            for t in 0..nthreads {
                loop {
                    let len = if phase == 0 { best.shared[t].len() } else { best.cold[t].len() };
                    if len == 0 || used >= budget {
                        break;
                    }
                    let mut cand = best.clone();
                    if phase == 0 { cand.shared[t].pop(); } else { cand.cold[t].pop(); }
                    // a shorter script changes the decision sequence: draw the schedule afresh from the seed
                    cand.schedule_cold.clear();
                    cand.schedule_shared.clear();
                    used += 1;
                    let o = e5::run_baton(&cand, prop, false);
                    if matches!(&o.violation, Some(x) if x.class() == class) {
                        best = o.trace_with_schedule;
                    } else {
                        break;
                    }
                    if used >= budget {
                        break 'outer;
                    }
                }
            }
        }
        local.violations.push(json!({
            "violation": v.to_json(),
            "trace": best.to_json(),
            "original_steps": 0,
            "shrink_runs": used,
            "seed": run_seed.to_string(),
        }));
    }
}

#[cfg(feature = "pm")]
fn run_e5d(args: &Args, cur_prop: &str, index: u64, run_seed: u64, dir: &std::path::Path, local: &mut Agg) {
    let grid: [u64; 12] = [0, 1, 2, 5, 11, 12, 50, 111, 112, 500, 1000, 1111];
    let mut rng = prng::Prng::new(run_seed);
    let release = if (index as usize) < 2 * grid.len() { grid[(index as usize) % grid.len()] } else { *rng.pick(&[rng.clone().below(1001), 5_000, 50_000, 2_000_000_000]) };
    let kind = if index % 13 == 12 { 1 } else if index % 7 == 6 { 2 } else { 0 };
    let via_rln = index % 2 == 1;
    let _ = args;
    let o = e5::run_clock(dir, release, kind, via_rln, run_seed);
    local.runs += 1;
    local.steps += 1 + o.sleeps.len() as u64;
    local.counters.merge(&o.counters);
    local.counters.add("simulated_ms", o.sim_ms);
    let d = util::fnv_str(&format!("{release}/{kind}/{via_rln}"));
    local.traces.insert(d);
    if !o.sleeps.is_empty() || kind == 1 {
        local.nontrivial.insert(d);
    }
    {
        let mut f = util::Fnv::new();
        f.add_u64(o.sim_ms);
        for x in &o.sleeps {
            f.add_u64(*x);
        }
        f.add_u64(o.violation.is_some() as u64);
        local.logs.push((run_seed, f.0));
    }
    let tj = json!({"engine":"e5d","property":"C18","release_ms":release.to_string(),"kind":kind,"via_rln":via_rln,"seed":run_seed.to_string(),"observed_sleeps_ms":o.sleeps});
    if local.samples.len() < 2 {
        local.samples.push(tj.clone());
    }
    if let Some(e) = o.harness_error {
        local.harness_errors.push(format!("seed {run_seed}: {e}"));
    }
    if let Some((clause, detail)) = o.violation {
        let prop = if clause.starts_with("acknowledged_update_lost") { "C16" } else { "C18" };
        if prop != cur_prop {
            local.counters.inc(&format!("foreign.{prop}.{clause}"));
            return;
        }
        local.violations.push(json!({
            "violation": {"property": prop, "clause": clause, "detail": detail, "class": format!("{prop}|retry_clock|{clause}")},
            "trace": tj,
            "original_steps": 1,
            "shrink_runs": 0,
            "seed": run_seed.to_string(),
        }));
    }
}

fn run_one(args: &Args) -> i32 {
    let path = match args.get("trace") {
        Some(p) => p,
        None => {
            eprintln!("--trace required");
            return 2;
        }
    };
    let txt = std::fs::read_to_string(path).expect("read trace");
    let v: Value = serde_json::from_str(&txt).expect("trace json");
    // a replay file may wrap the trace
    let tv = if v["trace"].is_object() { v["trace"].clone() } else { v.clone() };
    let known = args.known();
    let base = scratch_base(args);
    let engine = tv["engine"].as_str().unwrap_or("e1").to_string();
    let prop = args.get("prop").map(|s| s.to_string()).or(tv["property"].as_str().map(|s| s.to_string())).unwrap_or_default();
    let res = match engine.as_str() {
        #[cfg(not(feature = "stateless"))]
        "e1" => {
            let mut t = e1::Trace::from_json(&tv).expect("e1 trace");
            t.prop = prop.clone();
            let mut ctx = e1::Ctx::new(&prop, &known, &base);
            let out = e1::run_trace(&t, &mut ctx);
            json!({
                "violation": out.violation.map(|v| v.to_json()),
                "harness_error": out.harness_error,
                "log": ctx.log.0.to_string(),
                "counters": ctx.counters.to_json(),
            })
        }
        #[cfg(not(feature = "stateless"))]
        "e2" => {
            let mut t = e2::Trace::from_json(&tv).expect("e2 trace");
            t.prop = prop.clone();
            let mut ctx = e2::Ctx::new(&prop, &known);
            let out = e2::run_trace(&t, &mut ctx);
            json!({
                "violation": out.violation.map(|v| v.to_json()),
                "harness_error": out.harness_error,
                "log": ctx.log.0.to_string(),
                "counters": ctx.counters.to_json(),
            })
        }
        #[cfg(feature = "pm")]
        "e4" => {
            match e4_spawn(args, &base) {
                Err(e) => json!({"harness_error": e}),
                Ok(mut ps) => {
                    if tv["keys_only"] == true {
                        match e4::check_keys(&mut ps) {
                            Ok(_) => json!({"violation": Value::Null}),
                            Err((clause, detail)) => json!({"violation": {"property":"C17","clause":clause,"detail":detail,"class":format!("C17|keys|{clause}")}}),
                        }
                    } else {
                        let t = e4::Trace::from_json(&tv).expect("e4 trace");
                        let o = e4::run(&t, &mut ps);
                        json!({
                            "violation": o.violation.map(|(c, d, _)| json!({"property":"C17","clause":c,"detail":d,"class":format!("C17|e4|{c}")})),
                            "harness_error": o.harness_error,
                            "log": o.log.to_string(),
                            "counters": o.counters.to_json(),
                        })
                    }
                }
            }
        }
        #[cfg(feature = "pm")]
        "e5b" => {
            let t = e5::BatonTrace::from_json(&tv).expect("e5b trace");
            let o = e5::run_baton(&t, &prop, true);
            json!({
                "violation": o.violation.map(|v| v.to_json()),
                "harness_error": o.harness_error,
                "log": (o.log ^ o.schedule_digest).to_string(),
                "counters": o.counters.to_json(),
            })
        }
        #[cfg(feature = "pm")]
        "e5d" => {
            let release = tv["release_ms"].as_str().and_then(|s| s.parse().ok()).unwrap_or(0);
            let seed = tv["seed"].as_str().and_then(|s| s.parse().ok()).unwrap_or(0);
            let o = e5::run_clock(&base, release, tv["kind"].as_u64().unwrap_or(0) as u8, tv["via_rln"].as_bool().unwrap_or(false), seed);
            json!({
                "violation": o.violation.map(|(c, d)| { let p = if c.starts_with("acknowledged_update_lost") { "C16" } else { "C18" }; json!({"property": p, "clause": c, "detail": d, "class": format!("{p}|retry_clock|{c}")}) }),
                "harness_error": o.harness_error,
                "log": o.sim_ms.to_string(),
                "counters": o.counters.to_json(),
            })
        }
        #[cfg(feature = "pm")]
        "e3" => {
            let t = e3::Trace::from_json(&tv).expect("e3 trace");
            let mut ctx = e3::Ctx { counters: util::Counters::default(), log: util::Fnv::new() };
            let out = e3::run_trace(&t, &mut ctx);
            json!({
                "violation": out.violation.map(|v| v.to_json()),
                "harness_error": out.harness_error,
                "log": ctx.log.0.to_string(),
                "counters": ctx.counters.to_json(),
            })
        }
        #[cfg(feature = "pm")]
        "e1store" => {
            let (v, h, log, counters) = e1_store::run_replay(&tv, &known, &base);
            json!({
                "violation": v.map(|v| v.to_json()),
                "harness_error": h,
                "log": log.to_string(),
                "counters": counters.to_json(),
            })
        }
        _ => json!({"harness_error": format!("unknown engine {engine}")}),
    };
    let _ = std::fs::remove_dir_all(&base);
    write_out(args, &res);
    0
}

fn gen_one(args: &Args) -> i32 {
    let prop = args.get("prop").unwrap_or("C06").to_string();
    let seed = args.u64("seed", 1);
    let i = args.u64("index", 0);
    let engine = args.get("engine").unwrap_or("e1");
    let run_seed = if args.flag("raw") { seed } else { prng::mix(seed, &format!("{engine}/{prop}"), i) };
    match engine {
        #[cfg(not(feature = "stateless"))]
        "e1" => {
            let t = e1::generate(run_seed, &e1_gencfg(args, &prop));
            println!("{}", serde_json::to_string_pretty(&t.to_json()).unwrap());
            0
        }
        #[cfg(not(feature = "stateless"))]
        "e2" => {
            let t = e2gen::generate(&prop, run_seed, args.get("tier") == Some("thorough"));
            println!("{}", serde_json::to_string(&t.to_json()).unwrap());
            0
        }
        _ => 2,
    }
}

/// Cross-checks the sparse model root against the dense computation.
fn selftest_model() -> i32 {
    use model::IdealTree;
    let mut rng = prng::Prng::new(7);
    let mut checked = 0;
    for depth in 1..=10usize {
        for _ in 0..6 {
            let mut m = IdealTree::new(depth);
            for _ in 0..(1 + rng.usize_below(20)) {
                let i = rng.usize_below(m.cap());
                if rng.chance(1, 4) {
                    m.delete(i);
                } else {
                    m.set(i, util::fr_from_le(&rng.bytes(32)));
                }
            }
            if m.root() != m.root_dense() {
                println!("MODEL MISMATCH depth {depth}");
                return 1;
            }
            // path folds to root
            let i = rng.usize_below(m.cap());
            let (sib, bits) = m.path(i);
            let mut cur = m.get(i);
            for (s, b) in sib.iter().zip(bits.iter()) {
                cur = if *b == 0 { model::h2(cur, *s) } else { model::h2(*s, cur) };
            }
            if cur != m.root() {
                println!("MODEL PATH MISMATCH depth {depth}");
                return 1;
            }
            checked += 1;
        }
    }
    println!("model selftest ok: {checked} trees");
    0
}


/// Development aid: creates and drops persistent-tree instances in a loop and prints the resident set size.
#[cfg(feature = "pm")]
fn leakprobe(args: &Args) -> i32 {
    use rln::pm_tree_adapter::{PmTree, PmtreeConfig};
    use std::str::FromStr;
    use zerokit_utils::ZerokitMerkleTree;
    let depth = args.u64("depth", 20) as usize;
    let n = args.u64("n", 100);
    let mode = args.u64("mode", 0);
    let rss = || -> u64 {
        let s = std::fs::read_to_string("/proc/self/statm").unwrap_or_default();
        s.split_whitespace().nth(1).and_then(|x| x.parse::<u64>().ok()).unwrap_or(0) * 4096 / (1 << 20)
    };
    for k in 0..n {
        let cfg = PmtreeConfig::from_str("{}").ok();
        let mut t = match cfg {
            Some(c) => PmTree::new(depth, ark_bn254::Fr::from(0u64), c).expect("new"),
            None => PmTree::default(depth).expect("default"),
        };
        if mode >= 1 {
            for i in 0..5usize {
                t.set(i * 7 + (k as usize % 3), ark_bn254::Fr::from(5u64 + i as u64)).expect("set");
            }
        }
        if mode >= 2 {
            t.set_range(100, (0..30u32).map(|x| ark_bn254::Fr::from(x as u64))).expect("range");
        }
        if mode >= 3 {
            let cap = 1usize << depth;
            t.set(cap - 1, ark_bn254::Fr::from(9u64)).expect("set last");
            t.set(cap / 2, ark_bn254::Fr::from(9u64)).expect("set mid");
        }
        if mode >= 4 {
            t.set_range(16000, (0..40u32).map(|x| ark_bn254::Fr::from(x as u64))).expect("range 16000");
        }
        if mode >= 5 {
            let _ = t.override_range(3, (0..5u32).map(|x| ark_bn254::Fr::from(x as u64)), vec![3usize, 4].into_iter());
            let _ = t.get_empty_leaves_indices();
        }
        if mode >= 6 {
            t.set(900_000, ark_bn254::Fr::from(3u64)).expect("set high");
            t.set_range(524_287, (0..1u32).map(|x| ark_bn254::Fr::from(7 + x as u64))).expect("range mid");
        }
        drop(t);
        if k % 10 == 9 || mode >= 6 {
            println!("iter {k}: rss {} MB", rss());
        }
    }
    0
}


#[cfg(target_os = "linux")]
fn trim_heap() {
    extern "C" {
        fn malloc_trim(pad: usize) -> i32;
    }
    unsafe {
        malloc_trim(0);
    }
}

#[cfg(not(target_os = "linux"))]
fn trim_heap() {}
