//! `simworker serve` — one build configuration as a node of the E4 network: JSON requests on
//! stdin, JSON responses on stdout (one per line). Compiles under every feature set.

use serde_json::{json, Value};
use std::io::{BufRead, Cursor, Write};

use rln::public::RLN;

use crate::util::*;

#[cfg(not(feature = "stateless"))]
fn new_rln() -> Result<RLN, String> {
    RLN::new(20, Cursor::new("{}".to_string())).map_err(|e| e.to_string())
}

#[cfg(feature = "stateless")]
fn new_rln() -> Result<RLN, String> {
    RLN::new().map_err(|e| e.to_string())
}

fn vk_digest() -> String {
    use ark_serialize::CanonicalSerialize;
    let zk = rln::circuit::zkey_from_folder();
    let mut b = Vec::new();
    zk.0.vk.serialize_compressed(&mut b).expect("serialize vk");
    let mut f = Fnv::new();
    f.add(&b);
    format!("{:016x}:{}", f.0, b.len())
}

/// Full key digest: proving key (uncompressed) and constraint matrices.
fn key_digest() -> String {
    use ark_serialize::CanonicalSerialize;
    let zk = rln::circuit::zkey_from_folder();
    let mut f = Fnv::new();
    let mut b = Vec::new();
    zk.0.serialize_uncompressed(&mut b).expect("serialize pk");
    f.add(&b);
    let m = &zk.1;
    for x in [m.num_instance_variables, m.num_witness_variables, m.num_constraints, m.a_num_non_zero, m.b_num_non_zero, m.c_num_non_zero] {
        f.add_u64(x as u64);
    }
    for mat in [&m.a, &m.b, &m.c] {
        for row in mat.iter() {
            f.add_u64(row.len() as u64);
            for (v, i) in row {
                f.add_fr(v);
                f.add_u64(*i as u64);
            }
        }
    }
    format!("{:016x}:{}", f.0, b.len())
}

/// arkzkey build: parse the snarkjs key file as well and compare the two loaded keys for equality.
fn keys_equal() -> Value {
    #[cfg(feature = "arkzkey")]
    {
        let parsed = rln::circuit::zkey::read_zkey(&mut Cursor::new(rln::circuit::ZKEY_BYTES));
        match parsed {
            Err(e) => json!({"ok": false, "error": e.to_string()}),
            Ok((pk, m)) => {
                let loaded = rln::circuit::zkey_from_folder();
                let pk_eq = pk == loaded.0;
                let m_eq = m.num_instance_variables == loaded.1.num_instance_variables
                    && m.num_witness_variables == loaded.1.num_witness_variables
                    && m.num_constraints == loaded.1.num_constraints
                    && m.a == loaded.1.a
                    && m.b == loaded.1.b
                    && m.c == loaded.1.c
                    && m.a_num_non_zero == loaded.1.a_num_non_zero
                    && m.b_num_non_zero == loaded.1.b_num_non_zero
                    && m.c_num_non_zero == loaded.1.c_num_non_zero;
                json!({"ok": true, "proving_key_equal": pk_eq, "matrices_equal": m_eq})
            }
        }
    }
    #[cfg(not(feature = "arkzkey"))]
    {
        json!({"ok": false, "error": "not an arkzkey build"})
    }
}

pub fn handle(rln: &mut Option<RLN>, req: &Value) -> Value {
    let cmd = req["cmd"].as_str().unwrap_or("");
    let hb = |k: &str| unhex(req[k].as_str().unwrap_or(""));
    let r = guarded(|| -> Result<Value, String> {
        match cmd {
            "features" => Ok(json!({"features": crate::feature_string()})),
            "vk_digest" => Ok(json!({"digest": vk_digest()})),
            "key_digest" => Ok(json!({"digest": key_digest()})),
            "keys_equal" => Ok(keys_equal()),
            "reset" => {
                *rln = None; // release the store first
                *rln = Some(new_rln()?);
                Ok(json!({}))
            }
            _ => {
                let r = rln.as_mut().ok_or("no instance")?;
                match cmd {
                    #[cfg(not(feature = "stateless"))]
                    "set" => {
                        r.set_leaf(req["i"].as_u64().unwrap_or(0) as usize, Cursor::new(hb("v"))).map_err(|e| e.to_string())?;
                        Ok(json!({}))
                    }
                    #[cfg(not(feature = "stateless"))]
                    "append" => {
                        r.set_next_leaf(Cursor::new(hb("v"))).map_err(|e| e.to_string())?;
                        Ok(json!({}))
                    }
                    #[cfg(not(feature = "stateless"))]
                    "delete" => {
                        r.delete_leaf(req["i"].as_u64().unwrap_or(0) as usize).map_err(|e| e.to_string())?;
                        Ok(json!({}))
                    }
                    #[cfg(not(feature = "stateless"))]
                    "root" => {
                        let mut w = Vec::new();
                        r.get_root(&mut w).map_err(|e| e.to_string())?;
                        Ok(json!({"bytes": hex(&w), "leaves_set": r.leaves_set() as u64}))
                    }
                    #[cfg(not(feature = "stateless"))]
                    "get_proof" => {
                        let mut w = Vec::new();
                        r.get_proof(req["i"].as_u64().unwrap_or(0) as usize, &mut w).map_err(|e| e.to_string())?;
                        Ok(json!({"bytes": hex(&w)}))
                    }
                    #[cfg(not(feature = "stateless"))]
                    "prove" => {
                        let mut w = Vec::new();
                        r.generate_rln_proof(Cursor::new(hb("request")), &mut w).map_err(|e| e.to_string())?;
                        Ok(json!({"bytes": hex(&w)}))
                    }
                    #[cfg(not(feature = "stateless"))]
                    "witness" => {
                        let w = r.get_serialized_rln_witness(Cursor::new(hb("request"))).map_err(|e| e.to_string())?;
                        Ok(json!({"bytes": hex(&w)}))
                    }
                    "prove_with_witness" => {
                        let mut w = Vec::new();
                        r.generate_rln_proof_with_witness(Cursor::new(hb("witness")), &mut w).map_err(|e| e.to_string())?;
                        Ok(json!({"bytes": hex(&w)}))
                    }
                    #[cfg(not(feature = "stateless"))]
                    "verify_rln" => {
                        let v = r.verify_rln_proof(Cursor::new(hb("input"))).map_err(|e| e.to_string())?;
                        Ok(json!({"verdict": v}))
                    }
                    "verify_roots" => {
                        let v = r.verify_with_roots(Cursor::new(hb("input")), Cursor::new(hb("roots"))).map_err(|e| e.to_string())?;
                        Ok(json!({"verdict": v}))
                    }
                    "verify" => {
                        let v = r.verify(Cursor::new(hb("input"))).map_err(|e| e.to_string())?;
                        Ok(json!({"verdict": v}))
                    }
                    other => Err(format!("unknown or unsupported command {other}")),
                }
            }
        }
    });
    match r {
        Ok(Ok(mut v)) => {
            v["ok"] = v.get("ok").cloned().unwrap_or(json!(true));
            v
        }
        Ok(Err(e)) => json!({"ok": false, "error": e}),
        Err(p) => json!({"ok": false, "panic": p}),
    }
}

pub fn serve() -> i32 {
    let stdin = std::io::stdin();
    let mut out = std::io::stdout();
    let mut rln: Option<RLN> = None;
    for line in stdin.lock().lines() {
        let line = match line {
            Ok(l) => l,
            Err(_) => break,
        };
        if line.trim().is_empty() {
            continue;
        }
        let req: Value = match serde_json::from_str(&line) {
            Ok(v) => v,
            Err(e) => {
                let _ = writeln!(out, "{}", json!({"ok": false, "error": format!("bad request: {e}")}));
                let _ = out.flush();
                continue;
            }
        };
        if req["cmd"] == "quit" {
            break;
        }
        let resp = handle(&mut rln, &req);
        let _ = writeln!(out, "{}", resp);
        let _ = out.flush();
    }
    0
}
