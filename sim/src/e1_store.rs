//! C16 — acknowledged updates survive reopen; storage failures are reported.
//!
//! L1: guarded hook in SledDB::{put, put_batch, close}: for every generated history the simulator
//!     first runs fault-free (full C16 oracle after every step, including reopen), then re-runs it
//!     once per failure position k = 1, 2, ... (until the armed position is no longer reached) and
//!     per kind {transient, sticky}: every failure position of the history is enumerated.
//! L2: sled's own `failpoints` feature ("buffer write"): a real sled::Error reaches the adapter;
//!     acknowledged-but-unflushed data may be lost, flushed data may not, reopening works.
//!     (A clause "every call after a failed flush fails" was tried and withdrawn: sled does not
//!     guarantee it — an insert served from the page cache can still succeed — so it raised false
//!     alarms on the unchanged tree.)

use ark_bn254::Fr;
use serde_json::{json, Value};
use std::collections::{BTreeSet, HashSet};

use crate::e1::*;
use crate::io::{ReadPlan, WritePlan};
use crate::model::IdealTree;
use crate::prng::Prng;
use crate::util::*;

pub fn generate_c16(seed: u64, thorough: bool, known: &HashSet<String>) -> Trace {
    generate_c16_profile(seed, thorough, known, false)
}

/// `flush_heavy`: more flushes, metadata updates and updates that leave the root unchanged (what a crash right
/// after an acknowledged flush is sensitive to).
pub fn generate_c16_profile(seed: u64, thorough: bool, known: &HashSet<String>, flush_heavy: bool) -> Trace {
    let mut rng = Prng::new(seed);
    // (depth 20 was tried in the thorough tier: one history enumerates ~500 failure positions, each with a reopen and a full
    // comparison, and took more than half an hour - the wall-clock cap only acts between histories)
    let depth = if thorough && rng.chance(1, 40) {
        *rng.pick(&[8usize, 10])
    } else {
        [1usize, 2, 2, 3, 3, 3, 4, 4, 5, 6][rng.usize_below(10)]
    };
    let kind = if rng.chance(1, 3) { "rlnp" } else { "pmp" };
    let store = StoreCfg::gen(&mut rng);
    let nsteps = 2 + rng.usize_below(11);
    let mut m = IdealTree::new(depth);
    let mut uniq = 0u64;
    let mut steps = Vec::new();
    // order: set delete append set_range batch(write-only) batch(remove-only) batch(mixed) set_meta flush reopen reset init
    let mut w: [u32; 12] = [10, 5, 6, 6, 3, 3, 1, 5, 3, 7, 0, 0];
    if kind == "rlnp" {
        w[10] = 1;
        w[11] = 1;
    }
    if known.contains("pm_batch_mixed") || known.contains("pm_batch_mixed_flags") {
        w[6] = 0;
    }
    if flush_heavy {
        w[7] = 9;
        w[8] = 9;
        w[9] = 2;
    }
    for _ in 0..nsteps {
        let op = match rng.weighted(&w) {
            0 => {
                if flush_heavy && rng.chance(1, 3) {
                    // a write of the default value above the mark moves only the leaf count: the root stays
                    Op::Set { i: (m.hwm + rng.usize_below(3)).min(m.cap() - 1), v: Fr::from(0u64) }
                } else {
                    Op::Set { i: gen_pos(&mut rng, &m), v: gen_value(&mut rng, &mut uniq) }
                }
            }
            1 => Op::Delete { i: gen_pos(&mut rng, &m) },
            2 => Op::Append { v: if flush_heavy && rng.chance(1, 3) { Fr::from(0u64) } else { gen_value(&mut rng, &mut uniq) } },
            3 => {
                let start = rng.usize_below(m.cap());
                let n = 1 + rng.usize_below((m.cap() - start).min(6));
                Op::SetRange { start, vals: (0..n).map(|_| gen_value(&mut rng, &mut uniq)).collect() }
            }
            4 => {
                let start = rng.usize_below(m.cap());
                let n = 1 + rng.usize_below((m.cap() - start).min(6));
                Op::Batch { start, vals: (0..n).map(|_| gen_value(&mut rng, &mut uniq)).collect(), rem: vec![] }
            }
            5 => {
                let n = 1 + rng.usize_below(4);
                let rem: Vec<usize> = (0..n).map(|_| rng.usize_below(m.cap().min(256))).collect();
                Op::Batch { start: 0, vals: vec![], rem }
            }
            6 => {
                let start = rng.usize_below(m.cap());
                let n = 1 + rng.usize_below((m.cap() - start).min(4));
                let rem: Vec<usize> = (0..2).map(|_| rng.usize_below(m.cap().min(256))).collect();
                Op::Batch { start, vals: (0..n).map(|_| gen_value(&mut rng, &mut uniq)).collect(), rem }
            }
            7 => {
                // empty, repeated and fresh values (an update equal to what a cache holds, clearing after a reopen, ...)
                match rng.weighted(&[3, 2, 2, 5, 1]) {
                    0 => Op::SetMeta { bytes: Vec::new() },
                    1 => Op::SetMeta { bytes: b"block:1234".to_vec() },
                    2 => Op::SetMeta { bytes: vec![0u8; 3] },
                    4 => Op::SetMeta { bytes: { let n = *rng.pick(&[255usize, 256, 4096, 70_000]); rng.bytes(n) } },
                    _ => {
                        let n = 1 + rng.usize_below(24);
                        Op::SetMeta { bytes: rng.bytes(n) }
                    }
                }
            }
            8 => Op::Flush,
            9 => Op::Reopen { flush: rng.chance(2, 3) },
            10 => Op::Reset,
            _ => {
                let n = 1 + rng.usize_below(m.cap().min(6));
                Op::Init { vals: (0..n).map(|_| gen_value(&mut rng, &mut uniq)).collect() }
            }
        };
        step_model(&mut m, &op);
        let mut st = Step { op, reader: ReadPlan::clean(), writer: WritePlan::clean(), shape: 0 };
        st.shape = rng.below(2) as u8;
        steps.push(st);
    }
    Trace { prop: "C16".into(), seed, depth, nodes: vec![kind.to_string()], store, steps }
}

pub struct C16Result {
    pub violation: Option<(Violation, Value)>,
    pub harness_error: Option<String>,
    pub fault_runs: u64,
    pub fired: u64,
    pub nontrivial: Vec<u64>,
}

/// One history: fault-free run, then every failure position, both kinds.
pub fn run_history(trace: &Trace, known: &HashSet<String>, scratch: &std::path::Path, counters: &mut Counters, states: &mut HashSet<u64>, max_k: u64) -> C16Result {
    let mut out = C16Result { violation: None, harness_error: None, fault_runs: 0, fired: 0, nontrivial: Vec::new() };
    // phase A: fault-free
    {
        let mut ctx = Ctx::new("C16", known, scratch);
        let r = run_trace(trace, &mut ctx);
        counters.merge(&ctx.counters);
        states.extend(ctx.states.iter().copied());
        if let Some(e) = r.harness_error {
            out.harness_error = Some(e);
            return out;
        }
        if let Some(v) = r.violation {
            let replay = replay_json(trace, None);
            out.violation = Some((v, replay));
            return out;
        }
        counters.inc("fault_free_histories");
    }
    // phase B: every failure position
    let td = trace.digest();
    for sticky in [false, true] {
        let mut k = 1u64;
        loop {
            if k > max_k {
                counters.inc("enumeration_cut_at_max_k");
                break;
            }
            let mut ctx = Ctx::new("C16", known, scratch);
            ctx.fault = Some((k, sticky));
            let r = run_trace(trace, &mut ctx);
            out.fault_runs += 1;
            counters.merge(&ctx.counters);
            if let Some(e) = r.harness_error {
                out.harness_error = Some(format!("k={k} sticky={sticky}: {e}"));
                return out;
            }
            if let Some(v) = r.violation {
                out.violation = Some((v, replay_json(trace, Some((k, sticky)))));
                return out;
            }
            if ctx.fault_outcome == "not_reached" {
                break;
            }
            out.fired += 1;
            let mut f = Fnv::new();
            f.add_u64(td);
            f.add_u64(k);
            f.add_u64(sticky as u64);
            out.nontrivial.push(f.0);
            counters.inc(if sticky { "fault_runs_sticky" } else { "fault_runs_transient" });
            k += 1;
        }
    }
    out
}

pub fn replay_json(trace: &Trace, fault: Option<(u64, bool)>) -> Value {
    let mut j = trace.to_json();
    j["engine"] = json!("e1store");
    if let Some((k, sticky)) = fault {
        j["storage_fault"] = json!({"layer": "L1", "k": k, "sticky": sticky});
    }
    j
}

/// Replays one (trace, fault) pair.
pub fn run_replay(tv: &Value, known: &HashSet<String>, scratch: &std::path::Path) -> (Option<Violation>, Option<String>, u64, Counters) {
    if let Some(sd) = tv["config_probe_seed"].as_str() {
        let (v, c) = config_probes(scratch, sd.parse().unwrap_or(0));
        return (v, None, 0, c);
    }
    let trace = match Trace::from_json(tv) {
        Some(t) => t,
        None => return (None, Some("bad trace".into()), 0, Counters::default()),
    };
    if let Some(sd) = tv["config_probe_seed"].as_str() {
        let (v, c) = config_probes(scratch, sd.parse().unwrap_or(0));
        return (v, None, 0, c);
    }
    if tv["storage_fault"]["layer"].as_str() == Some("exit") {
        let r = run_crash(&trace, tv["storage_fault"]["k"].as_u64().unwrap_or(1), scratch);
        return (r.violation, r.harness_error, 0, r.counters);
    }
    if tv["storage_fault"]["layer"].as_str() == Some("L2") {
        let r = run_l2(&trace, tv["storage_fault"]["bits"].as_u64().unwrap_or(1), tv["storage_fault"]["after_step"].as_u64().unwrap_or(0) as usize, scratch);
        return (r.violation, r.harness_error, 0, r.counters);
    }
    let mut ctx = Ctx::new("C16", known, scratch);
    if tv["storage_fault"].is_object() {
        ctx.fault = Some((tv["storage_fault"]["k"].as_u64().unwrap_or(1), tv["storage_fault"]["sticky"].as_bool().unwrap_or(false)));
    }
    let r = run_trace(&trace, &mut ctx);
    (r.violation, r.harness_error, ctx.log.0, ctx.counters)
}

/// Shrinks a failing (trace, fault): drops steps, then re-finds a failing k for the shorter trace.
pub fn shrink_c16(trace: &Trace, fault: Option<(u64, bool)>, class: &str, known: &HashSet<String>, scratch: &std::path::Path, budget: usize) -> (Trace, Option<(u64, bool)>, usize) {
    let mut used = 0usize;
    let fails = |t: &Trace, f: Option<(u64, bool)>, used: &mut usize| -> Option<Option<(u64, bool)>> {
        match f {
            None => {
                *used += 1;
                let mut c = Ctx::new("C16", known, scratch);
                let r = run_trace(t, &mut c);
                if matches!(r.violation, Some(v) if v.class() == class) { Some(None) } else { None }
            }
            Some((_, sticky)) => {
                // the position of the failing write moves when steps are dropped: search it again
                for k in 1..=200u64 {
                    *used += 1;
                    let mut c = Ctx::new("C16", known, scratch);
                    c.fault = Some((k, sticky));
                    let r = run_trace(t, &mut c);
                    if matches!(&r.violation, Some(v) if v.class() == class) {
                        return Some(Some((k, sticky)));
                    }
                    if c.fault_outcome == "not_reached" {
                        return None;
                    }
                }
                None
            }
        }
    };
    let mut best = trace.clone();
    let mut bf = fault;
    let mut i = 0;
    while i < best.steps.len() && used < budget {
        let mut t = best.clone();
        t.steps.remove(i);
        if t.steps.is_empty() && fault.is_none() {
            break;
        }
        match fails(&t, bf, &mut used) {
            Some(nf) => {
                best = t;
                bf = nf;
            }
            None => i += 1,
        }
    }
    for d in 1..best.depth {
        if used >= budget {
            break;
        }
        let mut t = best.clone();
        t.depth = d;
        if let Some(nf) = fails(&t, bf, &mut used) {
            best = t;
            bf = nf;
            break;
        }
    }
    (best, bf, used)
}

// ------------------------------------------------------------------------------------------------
// L2: a real sled log-write failure (process-global failpoint: one run at a time per process)
// ------------------------------------------------------------------------------------------------

pub struct L2Result {
    pub violation: Option<Violation>,
    pub harness_error: Option<String>,
    pub counters: Counters,
    pub poisoned: bool,
}

/// Runs the history on one path-backed node; after step `after_step` the failpoint "buffer write"
/// is armed with `bits` (bit i set = the i-th log write from then on fails).
pub fn run_l2(trace: &Trace, bits: u64, after_step: usize, scratch: &std::path::Path) -> L2Result {
    let mut res = L2Result { violation: None, harness_error: None, counters: Counters::default(), poisoned: false };
    let _ = std::fs::remove_dir_all(scratch);
    let _ = std::fs::create_dir_all(scratch);
    sled::fail::reset();
    let kind = trace.nodes[0].clone();
    let known = HashSet::new();
    let mut ctx = Ctx::new("C16", &known, scratch);
    let mut node = match guarded(|| Node::create(&kind, trace.depth, &trace.store, scratch)) {
        Ok(Ok(n)) => n,
        other => {
            res.harness_error = Some(format!("create failed: {:?}", other.err()));
            return res;
        }
    };
    let cap = node.model.cap();
    // F: model at the last Ok flush; later[i]: values written to i since then
    let mut flushed = node.model.clone();
    let mut later: Vec<BTreeSet<[u8; 32]>> = vec![BTreeSet::new(); cap.min(1 << 10)];
    let mut later_hwm: BTreeSet<usize> = BTreeSet::new();
    let mut flush_failed = false;
    let mk = |si: usize, op: &Op, clause: &str, detail: String, kind: &str| Violation {
        prop: "C16".into(), node: kind.to_string(), step: si, op_kind: op.kind().to_string(), clause: clause.to_string(), detail,
    };
    for (si, step) in trace.steps.iter().enumerate() {
        if si == after_step {
            sled::fail::set("buffer write", bits);
            res.counters.inc("fault.sled_buffer_write_armed");
        }
        if matches!(step.op, Op::Reopen { .. } | Op::Reset | Op::Init { .. }) {
            continue;
        }
        if matching_signatures(&kind, &step.op, &node.model).iter().any(|s| s.starts_with("pm_batch_mixed")) {
            continue;
        }
        let pre = node.model.clone();
        let expect = step_model(&mut node.model, &step.op);
        let r = guarded(|| node.apply(step, &ReadPlan::clean(), &trace.store, &mut ctx));
        match r {
            Err(p) => {
                res.violation = Some(mk(si, &step.op, "panic_on_storage_failure", p, &kind));
                break;
            }
            Ok(Ok(())) => {
                match expect {
                    Expect::Applied => {}
                    _ => node.model = pre.clone(),
                }
                // read-your-writes on the same instance: a call that returned Ok has taken effect
                // (this is what exposes a storage error swallowed below the API)
                let mut bad: Option<(usize, Fr)> = None;
                for i in 0..later.len() {
                    if node.model.get(i) != pre.get(i) {
                        if let Ok(v) = node.read_leaf(i) {
                            if v != node.model.get(i) {
                                bad = Some((i, v));
                                break;
                            }
                        }
                    }
                }
                if let Some((i, v)) = bad {
                    res.violation = Some(mk(si, &step.op, "storage_failure_not_reported",
                        format!("{} returned Ok but leaf {i} reads {} instead of {}", step.op.kind(), fr_to_json(&v), fr_to_json(&node.model.get(i))), &kind));
                    break;
                }
                if matches!(step.op, Op::Flush) {
                    flushed = node.model.clone();
                    for s in later.iter_mut() {
                        s.clear();
                    }
                    later_hwm.clear();
                    res.counters.inc("reach.flush_ok");
                } else {
                    for i in 0..later.len() {
                        if node.model.get(i) != pre.get(i) || node.model.flags.get(&i) != pre.flags.get(&i) {
                            later[i].insert(fr_to_le32(&node.model.get(i)));
                        }
                    }
                    later_hwm.insert(node.model.hwm);
                }
            }
            Ok(Err(_)) => {
                // a failed call may have stored part of its effect
                let mut post = pre.clone();
                step_model(&mut post, &step.op);
                for i in 0..later.len() {
                    if post.get(i) != pre.get(i) {
                        later[i].insert(fr_to_le32(&post.get(i)));
                    }
                }
                later_hwm.insert(post.hwm);
                node.model = pre.clone();
                if matches!(step.op, Op::Flush) {
                    flush_failed = true;
                    res.poisoned = true;
                    res.counters.inc("fault.sled_flush_failed");
                } else if !matches!(expect, Expect::Rejected) {
                    res.counters.inc("fault.sled_write_failed");
                }
            }
        }
    }
    // the process "dies": drop, clear the failpoint, reopen
    sled::fail::reset();
    if res.violation.is_some() {
        drop(node);
        let _ = std::fs::remove_dir_all(scratch);
        return res;
    }
    let last = trace.steps.len();
    let op = Op::Reopen { flush: false };
    match guarded(|| node.reopen(false, &trace.store)) {
        Err(p) => {
            res.violation = Some(mk(last, &op, "reopen_panic_after_storage_failure", p, &kind));
        }
        Ok(Err(e)) => {
            res.violation = Some(mk(last, &op, "reopen_failed_after_storage_failure", e, &kind));
        }
        Ok(Ok(())) => {
            // (i) flushed data is there; anything else is a value written later, never garbage
            for i in 0..later.len() {
                match node.read_leaf(i) {
                    Ok(v) => {
                        let ok = v == flushed.get(i) || later[i].contains(&fr_to_le32(&v));
                        if !ok {
                            res.violation = Some(mk(last, &op, "acknowledged_update_lost",
                                format!("after a storage failure and reopen leaf {i} = {}, flushed value {}", fr_to_json(&v), fr_to_json(&flushed.get(i))), &kind));
                            break;
                        }
                    }
                    Err(e) => {
                        res.violation = Some(mk(last, &op, "read_failed_after_storage_failure", e, &kind));
                        break;
                    }
                }
            }
            if res.violation.is_none() {
                let hwm = node.observed_hwm();
                if hwm != flushed.hwm && !later_hwm.contains(&hwm) {
                    res.violation = Some(mk(last, &op, "leaf_count_lost", format!("leaves_set {hwm} after reopen, flushed {}", flushed.hwm), &kind));
                }
            }
            if res.violation.is_none() {
                res.counters.inc("oracle_evaluations");
                // the reopened instance works
                if let Err(e) = node.prim_set(0, Fr::from(77u64)) {
                    res.violation = Some(mk(last, &op, "write_failed_after_faults_stopped", e, &kind));
                }
            }
        }
    }
    drop(node);
    let _ = std::fs::remove_dir_all(scratch);
    res
}

pub fn l2_replay_json(trace: &Trace, bits: u64, after_step: usize) -> Value {
    let mut j = trace.to_json();
    j["engine"] = json!("e1store");
    j["storage_fault"] = json!({"layer": "L2", "bits": bits, "after_step": after_step});
    j
}

// ------------------------------------------------------------------------------------------------
// Crash without goodbye: the history runs in a child process that `_exit`s from the storage hook at
// write k (no drop, no flush); the parent reopens the location. Only what a successful flush made
// durable is demanded back; everything else must be an old or a later-written value, never garbage.
// ------------------------------------------------------------------------------------------------

/// Child side: executes the trace with exit_at = k, acknowledging every returned step in `ack`
/// (one JSON line per step, synced) so that the parent knows exactly what was acknowledged.
pub fn crash_child(tv: &Value, k: u64, ack_path: &std::path::Path, scratch: &std::path::Path) -> i32 {
    use std::io::Write;
    let trace = match Trace::from_json(tv) {
        Some(t) => t,
        None => return 3,
    };
    let mut ack = match std::fs::OpenOptions::new().create(true).append(true).open(ack_path) {
        Ok(f) => f,
        Err(_) => return 3,
    };
    let kind = trace.nodes[0].clone();
    let known = HashSet::new();
    let mut ctx = Ctx::new("C16", &known, scratch);
    zerokit_utils::verif::arm(&[], None, Some(k));
    let mut node = match guarded(|| Node::create(&kind, trace.depth, &trace.store, scratch)) {
        Ok(Ok(n)) => n,
        _ => return 4,
    };
    let _ = writeln!(ack, "{}", json!({"created": true}));
    let _ = ack.sync_data();
    for (si, step) in trace.steps.iter().enumerate() {
        if matches!(step.op, Op::Reset | Op::Init { .. }) {
            continue;
        }
        if matching_signatures(&kind, &step.op, &node.model).iter().any(|s| s.starts_with("pm_batch_mixed")) {
            continue;
        }
        let r = guarded(|| node.apply(step, &ReadPlan::clean(), &trace.store, &mut ctx));
        let ok = matches!(r, Ok(Ok(())));
        let panicked = r.is_err();
        let _ = writeln!(ack, "{}", json!({"step": si as u64, "ok": ok, "panic": panicked}));
        let _ = ack.sync_data();
        if panicked {
            return 5;
        }
    }
    let _ = writeln!(ack, "{}", json!({"done": true}));
    let _ = ack.sync_data();
    // a process that reaches the end also dies without goodbye
    std::process::exit(0);
}

pub struct CrashResult {
    pub violation: Option<Violation>,
    pub harness_error: Option<String>,
    pub exited_at_k: bool,
    pub counters: Counters,
}

/// Parent side for one (history, k).
pub fn run_crash(trace: &Trace, k: u64, scratch: &std::path::Path) -> CrashResult {
    let mut res = CrashResult { violation: None, harness_error: None, exited_at_k: false, counters: Counters::default() };
    let _ = std::fs::remove_dir_all(scratch);
    let _ = std::fs::create_dir_all(scratch);
    let tfile = scratch.join("trace.json");
    let ack = scratch.join("ack.jsonl");
    let data = scratch.join("data");
    let _ = std::fs::create_dir_all(&data);
    let mut tj = trace.to_json();
    tj["engine"] = json!("e1store");
    if std::fs::write(&tfile, tj.to_string()).is_err() {
        res.harness_error = Some("cannot write trace".into());
        return res;
    }
    let exe = match std::env::current_exe() {
        Ok(e) => e,
        Err(e) => {
            res.harness_error = Some(format!("current_exe: {e}"));
            return res;
        }
    };
    let status = std::process::Command::new(exe)
        .args(["crash-child", "--trace", tfile.to_str().unwrap(), "--exit-at", &k.to_string(), "--ack", ack.to_str().unwrap(), "--scratch", data.to_str().unwrap()])
        .env("TMPDIR", scratch)
        .stdout(std::process::Stdio::null())
        .stderr(std::process::Stdio::null())
        .status();
    let code = match status {
        Ok(s) => s.code().unwrap_or(-1),
        Err(e) => {
            res.harness_error = Some(format!("spawn child: {e}"));
            return res;
        }
    };
    res.exited_at_k = code == 77;
    if code != 77 && code != 0 {
        if code == 5 {
            // a panic in the child is a violation in its own right (no storage failure was injected)
            res.violation = Some(Violation { prop: "C16".into(), node: trace.nodes[0].clone(), step: 0, op_kind: "crash_child".into(), clause: "panic_in_child".into(), detail: format!("child exit code {code}") });
        } else {
            res.harness_error = Some(format!("child exit code {code}"));
        }
        return res;
    }
    res.counters.inc(if code == 77 { "fault.process_exit_at_storage_write" } else { "crash_position_beyond_history" });
    // what was acknowledged
    let acked: Vec<Value> = std::fs::read_to_string(&ack).unwrap_or_default().lines().filter_map(|l| serde_json::from_str(l).ok()).collect();
    let kind = trace.nodes[0].clone();
    let mk = |clause: &str, detail: String| Violation { prop: "C16".into(), node: kind.clone(), step: trace.steps.len(), op_kind: "crash".into(), clause: clause.to_string(), detail };
    if !acked.iter().any(|a| a["created"] == true) {
        // died during creation: nothing acknowledged; a later open must work
        wait_unlocked(&data.join(&kind));
        match guarded(|| Node::create(&kind, trace.depth, &trace.store, &data)) {
            Ok(Ok(_)) => res.counters.inc("oracle_evaluations"),
            Ok(Err(e)) => res.violation = Some(mk("open_failed_after_crash_during_create", e)),
            Err(p) => res.violation = Some(mk("open_panic_after_crash_during_create", p)),
        }
        return res;
    }
    let depth = trace.depth;
    let mut model = IdealTree::new(depth);
    let mut flushed = model.clone();
    let cap = model.cap().min(1 << 10);
    let mut later: Vec<BTreeSet<[u8; 32]>> = vec![BTreeSet::new(); cap];
    let mut later_hwm: BTreeSet<usize> = BTreeSet::new();
    let mut later_meta: Vec<Vec<u8>> = Vec::new();
    let mut last_acked: i64 = -1;
    for a in &acked {
        if let Some(si) = a["step"].as_u64() {
            last_acked = si as i64;
        }
    }
    let ack_of = |si: usize| acked.iter().find(|a| a["step"].as_u64() == Some(si as u64));
    for (si, step) in trace.steps.iter().enumerate() {
        if matches!(step.op, Op::Reset | Op::Init { .. }) {
            continue;
        }
        if matching_signatures(&kind, &step.op, &model).iter().any(|s| s.starts_with("pm_batch_mixed")) {
            continue;
        }
        let a = ack_of(si);
        let in_flight = a.is_none() && (si as i64) > last_acked;
        if a.is_none() && !in_flight {
            continue;
        }
        let ok = a.map(|a| a["ok"] == true).unwrap_or(false);
        let pre = model.clone();
        let mut post = model.clone();
        let exp = step_model(&mut post, &step.op);
        let applied = matches!(exp, Expect::Applied);
        // every value this step may have stored is a legitimate later value
        for i in 0..cap {
            if post.get(i) != pre.get(i) {
                later[i].insert(fr_to_le32(&post.get(i)));
            }
        }
        later_hwm.insert(post.hwm);
        later_meta.push(post.metadata.clone());
        if ok && applied {
            model = post;
        }
        let is_flush = matches!(step.op, Op::Flush) || matches!(step.op, Op::Reopen { flush: true });
        if ok && is_flush {
            flushed = model.clone();
            for s in later.iter_mut() {
                s.clear();
            }
            later_hwm.clear();
            later_meta.clear();
            res.counters.inc("reach.flush_acknowledged_before_crash");
        }
        if in_flight {
            break;
        }
    }
    // the parent reopens the location
    wait_unlocked(&data.join(&kind));
    let mut node = match guarded(|| Node::create(&kind, depth, &trace.store, &data)) {
        Ok(Ok(n)) => n,
        Ok(Err(e)) => {
            res.violation = Some(mk("reopen_failed_after_crash", e));
            return res;
        }
        Err(p) => {
            res.violation = Some(mk("reopen_panic_after_crash", p));
            return res;
        }
    };
    for i in 0..cap {
        match node.read_leaf(i) {
            Ok(v) => {
                if v != flushed.get(i) && !later[i].contains(&fr_to_le32(&v)) {
                    res.violation = Some(mk("flushed_update_lost_after_crash", format!("after process exit at storage write {k} and reopen, leaf {i} = {} but the last acknowledged flush had {}", fr_to_json(&v), fr_to_json(&flushed.get(i)))));
                    return res;
                }
            }
            Err(e) => {
                res.violation = Some(mk("read_failed_after_crash", e));
                return res;
            }
        }
    }
    let hwm = node.observed_hwm();
    if hwm != flushed.hwm && !later_hwm.contains(&hwm) {
        res.violation = Some(mk("leaf_count_lost_after_crash", format!("leaves_set {hwm}, flushed {}", flushed.hwm)));
        return res;
    }
    match node.read_meta() {
        Ok(m) => {
            if m != flushed.metadata && !later_meta.contains(&m) {
                res.violation = Some(mk("metadata_lost_after_crash", format!("metadata {} , flushed {}", hex(&m), hex(&flushed.metadata))));
                return res;
            }
        }
        Err(e) => {
            res.violation = Some(mk("read_failed_after_crash", e));
            return res;
        }
    }
    res.counters.inc("oracle_evaluations");
    if let Err(e) = node.prim_set(0, Fr::from(78u64)) {
        res.violation = Some(mk("write_failed_after_crash_recovery", e));
    }
    res
}

pub fn crash_replay_json(trace: &Trace, k: u64) -> Value {
    let mut j = trace.to_json();
    j["engine"] = json!("e1store");
    j["storage_fault"] = json!({"layer": "exit", "k": k});
    j
}

// ------------------------------------------------------------------------------------------------
// Storage configurations: every documented option, valid and invalid, must give a working tree or a clean
// error (never a panic), and a tree created under one configuration must reopen under another.
// ------------------------------------------------------------------------------------------------

pub fn config_probes(scratch: &std::path::Path, seed: u64) -> (Option<Violation>, Counters) {
    use rln::public::RLN;
    use std::io::Cursor;
    let mut c = Counters::default();
    let _ = std::fs::remove_dir_all(scratch);
    let _ = std::fs::create_dir_all(scratch);
    let mut rng = Prng::new(seed);
    let mk = |clause: &str, detail: String| Violation { prop: "C16".into(), node: "rlnp".into(), step: 0, op_kind: "config".into(), clause: clause.to_string(), detail };
    let path = scratch.join("cfg-tree");
    let p = path.to_str().unwrap().to_string();
    let depth = 3usize;
    // 1. a tree with content under a first configuration
    let cfg_a = json!({"tree_config": {"path": p, "temporary": false, "cache_capacity": *rng.pick(&[1024u64, 150000, 1 << 30]), "flush_every_ms": *rng.pick(&[None, Some(50u64), Some(12000)]), "mode": *rng.pick(&["HighThroughput", "LowSpace"]), "use_compression": false}}).to_string();
    // one configuration in four names only the location: every other option takes the parser's default
    let minimal = json!({"tree_config": {"path": p, "temporary": false}}).to_string();
    let cfg_a = if rng.chance(1, 4) { c.inc("reach.minimal_config_created"); minimal.clone() } else { cfg_a };
    let v = fr_from_le(&rng.bytes(32));
    let root_a;
    {
        let mut r = match guarded(|| RLN::new(depth, Cursor::new(cfg_a.clone()))) {
            Ok(Ok(r)) => r,
            Ok(Err(e)) => return (Some(mk("valid_config_rejected", format!("{cfg_a}: {e}"))), c),
            Err(pn) => return (Some(mk("config_panic", format!("{cfg_a}: {pn}"))), c),
        };
        let _ = r.set_leaf(5, Cursor::new(fr_to_le32(&v).to_vec()));
        let _ = r.set_metadata(b"cfg");
        if let Err(e) = r.flush() {
            return (Some(mk("flush_failed", e.to_string())), c);
        }
        let mut w = Vec::new();
        let _ = r.get_root(&mut w);
        root_a = w;
    }
    wait_unlocked(&path);
    c.inc("oracle_evaluations");
    // 2. reopen under a different (valid) configuration: same content
    let cfg_b = json!({"tree_config": {"path": p, "temporary": false, "cache_capacity": *rng.pick(&[1024u64, 4096, 1 << 20]), "flush_every_ms": *rng.pick(&[None, Some(50u64)]), "mode": *rng.pick(&["HighThroughput", "LowSpace", "Unknown"])}}).to_string();
    let cfg_b = if rng.chance(1, 4) { c.inc("reach.minimal_config_reopened"); minimal.clone() } else { cfg_b };
    {
        let r = match guarded(|| RLN::new(depth, Cursor::new(cfg_b.clone()))) {
            Ok(Ok(r)) => r,
            Ok(Err(e)) => return (Some(mk("reopen_under_other_config_failed", format!("{cfg_b}: {e}"))), c),
            Err(pn) => return (Some(mk("config_panic", format!("{cfg_b}: {pn}"))), c),
        };
        let mut w = Vec::new();
        let _ = r.get_root(&mut w);
        let mut l = Vec::new();
        let _ = r.get_leaf(5, &mut l);
        let mut md = Vec::new();
        let _ = r.get_metadata(&mut md);
        if w != root_a || l != fr_to_le32(&v) || md != b"cfg" {
            return (Some(mk("content_changed_under_other_config", format!("created under {cfg_a}, reopened under {cfg_b}: root/leaf/metadata differ"))), c);
        }
        c.inc("oracle_evaluations");
        c.inc("reach.reopened_under_other_config");
    }
    wait_unlocked(&path);
    // 2b. an open attempt that names another tree height: it may be refused or it may hand back the stored tree, but the
    // acknowledged content must still be there afterwards (checked under the original height right after)
    {
        let other = *rng.pick(&[1usize, 2, 4, 5, 10]);
        match guarded(|| RLN::new(other, Cursor::new(cfg_a.clone()))) {
            Err(pn) => return (Some(mk("config_panic", format!("open with tree height {other} instead of {depth}: {pn}"))), c),
            Ok(Ok(r)) => {
                drop(r);
                c.inc("reach.opened_with_other_height");
            }
            Ok(Err(_)) => c.inc("reach.open_with_other_height_refused"),
        }
        wait_unlocked(&path);
        let r = match guarded(|| RLN::new(depth, Cursor::new(cfg_a.clone()))) {
            Ok(Ok(r)) => r,
            Ok(Err(e)) => return (Some(mk("reopen_failed_after_other_height", e.to_string())), c),
            Err(pn) => return (Some(mk("config_panic", pn)), c),
        };
        let mut w = Vec::new();
        let _ = r.get_root(&mut w);
        let mut l = Vec::new();
        let _ = r.get_leaf(5, &mut l);
        let mut md = Vec::new();
        let _ = r.get_metadata(&mut md);
        let mut r = r;
        if w != root_a || l != fr_to_le32(&v) || md != b"cfg" || r.leaves_set() != 6 {
            return (Some(mk("acknowledged_update_lost", format!("after an open attempt with tree height {other} the tree stored with height {depth} lost its content (leaf count {})", r.leaves_set()))), c);
        }
        c.inc("oracle_evaluations");
    }
    wait_unlocked(&path);
    // 3. invalid or unsupported configurations: a clean error, the stored tree untouched
    let bad: Vec<String> = vec![
        json!({"tree_config": {"path": p, "temporary": false, "use_compression": true}}).to_string(),
        json!({"tree_config": {"path": p, "temporary": true}}).to_string(),
        "{\"tree_config\": {\"path\": 5}}".to_string(),
        "{\"tree_config\": \"x\"}".to_string(),
        "not json".to_string(),
        json!({"tree_config": {"path": p, "temporary": false, "cache_capacity": "big"}}).to_string(),
    ];
    for b in &bad {
        match guarded(|| RLN::new(depth, Cursor::new(b.clone())).map(|_| ())) {
            Err(pn) => return (Some(mk("config_panic", format!("{b}: {pn}"))), c),
            Ok(_) => {
                c.inc("oracle_evaluations");
                c.inc("reach.odd_config_probed");
            }
        }
        wait_unlocked(&path);
    }
    // the stored tree is still what it was
    {
        let r = match guarded(|| RLN::new(depth, Cursor::new(cfg_a.clone()))) {
            Ok(Ok(r)) => r,
            Ok(Err(e)) => return (Some(mk("reopen_failed_after_odd_configs", e.to_string())), c),
            Err(pn) => return (Some(mk("config_panic", pn)), c),
        };
        let mut w = Vec::new();
        let _ = r.get_root(&mut w);
        if w != root_a {
            return (Some(mk("content_changed_by_odd_config", "an open attempt with an invalid/unsupported configuration changed the stored tree".to_string())), c);
        }
        c.inc("oracle_evaluations");
    }
    let _ = std::fs::remove_dir_all(scratch);
    (None, c)
}

/// Shrinks a failing crash run: drops steps while some exit position k still reproduces the class.
pub fn shrink_crash(trace: &Trace, k: u64, class: &str, scratch: &std::path::Path, budget: usize) -> (Trace, u64, usize) {
    let mut best = trace.clone();
    let mut bk = k;
    let mut used = 0usize;
    let fails = |t: &Trace, used: &mut usize| -> Option<u64> {
        for kk in 1..=120u64 {
            *used += 1;
            let r = run_crash(t, kk, scratch);
            if matches!(&r.violation, Some(v) if v.class() == class) {
                return Some(kk);
            }
            if !r.exited_at_k {
                return None;
            }
        }
        None
    };
    let mut i = 0;
    while i < best.steps.len() && used < budget {
        let mut t = best.clone();
        t.steps.remove(i);
        if t.steps.is_empty() {
            break;
        }
        match fails(&t, &mut used) {
            Some(kk) => {
                best = t;
                bk = kk;
            }
            None => i += 1,
        }
    }
    (best, bk, used)
}

/// Shrinks a failing L2 run (best effort: the instant at which sled's writer meets the failpoint is not controlled,
/// so every candidate is tried twice).
pub fn shrink_l2(trace: &Trace, bits: u64, after: usize, class: &str, scratch: &std::path::Path, budget: usize) -> (Trace, usize, usize) {
    let mut best = trace.clone();
    let mut ba = after;
    let mut used = 0usize;
    let fails = |t: &Trace, a: usize, used: &mut usize| -> bool {
        for _ in 0..2 {
            *used += 1;
            let r = run_l2(t, bits, a, scratch);
            if matches!(&r.violation, Some(v) if v.class() == class) {
                return true;
            }
        }
        false
    };
    let mut i = 0;
    while i < best.steps.len() && used < budget {
        let mut t = best.clone();
        t.steps.remove(i);
        let a = if i < ba { ba - 1 } else { ba };
        if !t.steps.is_empty() && fails(&t, a, &mut used) {
            best = t;
            ba = a;
        } else {
            i += 1;
        }
    }
    (best, ba, used)
}
