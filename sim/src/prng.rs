//! The only source of choices in the simulator: xoshiro256** seeded through splitmix64.
//! Implemented here (no crate) so a toolchain or dependency change cannot alter a replay.

#[derive(Clone, Debug)]
pub struct Prng {
    s: [u64; 4],
    pub draws: u64,
}

pub fn splitmix64(x: &mut u64) -> u64 {
    *x = x.wrapping_add(0x9E37_79B9_7F4A_7C15);
    let mut z = *x;
    z = (z ^ (z >> 30)).wrapping_mul(0xBF58_476D_1CE4_E5B9);
    z = (z ^ (z >> 27)).wrapping_mul(0x94D0_49BB_1331_11EB);
    z ^ (z >> 31)
}

/// Mixes (VERIF_SEED, property tag, run index) into a per-run seed.
pub fn mix(seed: u64, tag: &str, i: u64) -> u64 {
    let mut x = seed ^ 0xA076_1D64_78BD_642F;
    let mut h = splitmix64(&mut x);
    for b in tag.bytes() {
        x ^= (b as u64).wrapping_mul(0x100_0000_01B3);
        h ^= splitmix64(&mut x);
    }
    x ^= i.wrapping_mul(0xD6E8_FEB8_6659_FD93);
    h ^ splitmix64(&mut x)
}

impl Prng {
    pub fn new(seed: u64) -> Self {
        let mut x = seed;
        let s = [
            splitmix64(&mut x),
            splitmix64(&mut x),
            splitmix64(&mut x),
            splitmix64(&mut x),
        ];
        Prng { s, draws: 0 }
    }

    pub fn next_u64(&mut self) -> u64 {
        self.draws += 1;
        let result = self.s[1].wrapping_mul(5).rotate_left(7).wrapping_mul(9);
        let t = self.s[1] << 17;
        self.s[2] ^= self.s[0];
        self.s[3] ^= self.s[1];
        self.s[1] ^= self.s[2];
        self.s[0] ^= self.s[3];
        self.s[2] ^= t;
        self.s[3] = self.s[3].rotate_left(45);
        result
    }

    /// Uniform in [0, n); n == 0 gives 0.
    pub fn below(&mut self, n: u64) -> u64 {
        if n == 0 {
            return 0;
        }
        // multiply-shift; bias is irrelevant for a simulator and it is deterministic
        ((self.next_u64() as u128 * n as u128) >> 64) as u64
    }

    pub fn usize_below(&mut self, n: usize) -> usize {
        self.below(n as u64) as usize
    }

    /// Inclusive range.
    pub fn range(&mut self, lo: u64, hi: u64) -> u64 {
        lo + self.below(hi - lo + 1)
    }

    /// True with probability num/den.
    pub fn chance(&mut self, num: u64, den: u64) -> bool {
        self.below(den) < num
    }

    pub fn pick<'a, T>(&mut self, xs: &'a [T]) -> &'a T {
        &xs[self.usize_below(xs.len())]
    }

    /// Index chosen by integer weights.
    pub fn weighted(&mut self, weights: &[u32]) -> usize {
        let total: u64 = weights.iter().map(|w| *w as u64).sum();
        let mut r = self.below(total.max(1));
        for (i, w) in weights.iter().enumerate() {
            if r < *w as u64 {
                return i;
            }
            r -= *w as u64;
        }
        weights.len() - 1
    }

    pub fn bytes(&mut self, n: usize) -> Vec<u8> {
        let mut v = Vec::with_capacity(n);
        while v.len() < n {
            let w = self.next_u64().to_le_bytes();
            let take = (n - v.len()).min(8);
            v.extend_from_slice(&w[..take]);
        }
        v
    }
}
