//! Stream seams: every public RLN method takes Read / Write; the simulator supplies these.

use serde_json::{json, Value};
use std::io::{self, Read, Write};

use crate::prng::Prng;

/// How a simulated reader misbehaves. All legal behaviours of `std::io::Read`.
#[derive(Clone, Debug, Default, PartialEq)]
pub struct ReadPlan {
    /// max bytes handed out per call (0 = everything)
    pub chunk: usize,
    /// return ErrorKind::Interrupted before the n-th successful read call (0-based), each once
    pub interrupts: Vec<usize>,
    /// return a hard error once `fail_at` bytes have been delivered
    pub fail_at: Option<usize>,
    /// report EOF after this many bytes (truncation)
    pub eof_at: Option<usize>,
}

impl ReadPlan {
    pub fn clean() -> Self {
        ReadPlan::default()
    }
    pub fn is_clean(&self) -> bool {
        *self == ReadPlan::default()
    }
    /// Faults that must be transparent to a correct caller (no data lost).
    pub fn benign(rng: &mut Prng) -> Self {
        let chunk = *rng.pick(&[0usize, 0, 1, 7, 8, 31, 32, 33]);
        let mut interrupts = Vec::new();
        if rng.chance(1, 3) {
            for _ in 0..rng.range(1, 3) {
                interrupts.push(rng.usize_below(6));
            }
            interrupts.sort();
            interrupts.dedup();
        }
        ReadPlan {
            chunk,
            interrupts,
            fail_at: None,
            eof_at: None,
        }
    }
    pub fn to_json(&self) -> Value {
        json!({"chunk": self.chunk, "interrupts": self.interrupts, "fail_at": self.fail_at, "eof_at": self.eof_at})
    }
    pub fn from_json(v: &Value) -> Self {
        ReadPlan {
            chunk: v["chunk"].as_u64().unwrap_or(0) as usize,
            interrupts: v["interrupts"]
                .as_array()
                .map(|a| a.iter().map(|x| x.as_u64().unwrap_or(0) as usize).collect())
                .unwrap_or_default(),
            fail_at: v["fail_at"].as_u64().map(|x| x as usize),
            eof_at: v["eof_at"].as_u64().map(|x| x as usize),
        }
    }
}

#[derive(Default, Clone, Debug)]
pub struct IoStats {
    pub short_reads: u64,
    pub interrupts: u64,
    pub read_errors: u64,
    pub early_eofs: u64,
    pub short_writes: u64,
    pub write_errors: u64,
    pub write_interrupts: u64,
}

pub struct SimReader<'a> {
    data: &'a [u8],
    pos: usize,
    calls: usize,
    plan: ReadPlan,
    pending_int: Vec<usize>,
    pub stats: IoStats,
}

impl<'a> SimReader<'a> {
    pub fn new(data: &'a [u8], plan: ReadPlan) -> Self {
        let pending_int = plan.interrupts.clone();
        SimReader {
            data,
            pos: 0,
            calls: 0,
            plan,
            pending_int,
            stats: IoStats::default(),
        }
    }
}

impl<'a> Read for SimReader<'a> {
    fn read(&mut self, buf: &mut [u8]) -> io::Result<usize> {
        if let Some(p) = self.pending_int.iter().position(|c| *c == self.calls) {
            self.pending_int.remove(p);
            self.stats.interrupts += 1;
            return Err(io::Error::new(io::ErrorKind::Interrupted, "sim: EINTR"));
        }
        self.calls += 1;
        if let Some(k) = self.plan.fail_at {
            if self.pos >= k {
                self.stats.read_errors += 1;
                return Err(io::Error::new(io::ErrorKind::Other, "sim: read error"));
            }
        }
        let mut limit = self.data.len();
        if let Some(e) = self.plan.eof_at {
            if e < limit {
                limit = e;
                if self.pos >= limit {
                    self.stats.early_eofs += 1;
                }
            }
        }
        if let Some(k) = self.plan.fail_at {
            limit = limit.min(k.max(self.pos));
            if limit == self.pos && self.pos < self.data.len() {
                self.stats.read_errors += 1;
                return Err(io::Error::new(io::ErrorKind::Other, "sim: read error"));
            }
        }
        let avail = limit.saturating_sub(self.pos);
        let mut n = avail.min(buf.len());
        if self.plan.chunk > 0 && n > self.plan.chunk {
            n = self.plan.chunk;
            self.stats.short_reads += 1;
        }
        buf[..n].copy_from_slice(&self.data[self.pos..self.pos + n]);
        self.pos += n;
        Ok(n)
    }
}

#[derive(Clone, Debug, Default, PartialEq)]
pub struct WritePlan {
    pub chunk: usize,
    pub interrupts: Vec<usize>,
    pub fail_at: Option<usize>,
    /// return Ok(0) once this many bytes were accepted (=> WriteZero from write_all)
    pub zero_at: Option<usize>,
}

impl WritePlan {
    pub fn clean() -> Self {
        WritePlan::default()
    }
    pub fn benign(rng: &mut Prng) -> Self {
        let chunk = *rng.pick(&[0usize, 0, 1, 7, 8, 31, 32, 33]);
        let mut interrupts = Vec::new();
        if rng.chance(1, 3) {
            interrupts.push(rng.usize_below(4));
        }
        WritePlan {
            chunk,
            interrupts,
            fail_at: None,
            zero_at: None,
        }
    }
    pub fn to_json(&self) -> Value {
        json!({"chunk": self.chunk, "interrupts": self.interrupts, "fail_at": self.fail_at, "zero_at": self.zero_at})
    }
    pub fn from_json(v: &Value) -> Self {
        WritePlan {
            chunk: v["chunk"].as_u64().unwrap_or(0) as usize,
            interrupts: v["interrupts"]
                .as_array()
                .map(|a| a.iter().map(|x| x.as_u64().unwrap_or(0) as usize).collect())
                .unwrap_or_default(),
            fail_at: v["fail_at"].as_u64().map(|x| x as usize),
            zero_at: v["zero_at"].as_u64().map(|x| x as usize),
        }
    }
}

pub struct SimWriter {
    pub out: Vec<u8>,
    calls: usize,
    plan: WritePlan,
    pending_int: Vec<usize>,
    pub stats: IoStats,
}

impl SimWriter {
    pub fn new(plan: WritePlan) -> Self {
        let pending_int = plan.interrupts.clone();
        SimWriter {
            out: Vec::new(),
            calls: 0,
            plan,
            pending_int,
            stats: IoStats::default(),
        }
    }
}

impl Write for SimWriter {
    fn write(&mut self, buf: &[u8]) -> io::Result<usize> {
        if let Some(p) = self.pending_int.iter().position(|c| *c == self.calls) {
            self.pending_int.remove(p);
            self.stats.write_interrupts += 1;
            return Err(io::Error::new(io::ErrorKind::Interrupted, "sim: EINTR"));
        }
        self.calls += 1;
        if buf.is_empty() {
            return Ok(0);
        }
        let mut n = buf.len();
        if let Some(k) = self.plan.fail_at {
            if self.out.len() >= k {
                self.stats.write_errors += 1;
                return Err(io::Error::new(io::ErrorKind::Other, "sim: write error"));
            }
            n = n.min(k - self.out.len());
        }
        if let Some(k) = self.plan.zero_at {
            if self.out.len() >= k {
                self.stats.write_errors += 1;
                return Ok(0);
            }
            n = n.min(k - self.out.len());
        }
        if self.plan.chunk > 0 && n > self.plan.chunk {
            n = self.plan.chunk;
            self.stats.short_writes += 1;
        }
        self.out.extend_from_slice(&buf[..n]);
        Ok(n)
    }
    fn flush(&mut self) -> io::Result<()> {
        Ok(())
    }
}
