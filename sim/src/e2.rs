//! E2 — RLN protocol simulation (C01, C02, C03, C12, C13).
//!
//! A small relay network in one process: a totally ordered membership log, 2-3 RLN nodes that apply
//! the log prefix they have received so far through different API shapes, publishers that build
//! messages through the four proving entry points, a transport that delays, duplicates and alters
//! message copies, receivers that verify through the three verification entry points and recover
//! secrets from double-signalling. The simulator owns every queue; a trace lists every event.

use ark_bn254::Fr;
use serde_json::{json, Value};
use std::collections::{HashSet, VecDeque};
use std::io::Cursor;

use crate::io::{ReadPlan, SimReader, SimWriter, WritePlan};
use crate::model::IdealTree;
use crate::prng::Prng;
use crate::proto::*;
use crate::util::*;
use rln::public::RLN;

pub const DEPTH: usize = 20;
pub const CAP: usize = 1 << DEPTH;

// ------------------------------------------------------------------------------------------------
// Trace
// ------------------------------------------------------------------------------------------------

#[derive(Clone, Debug, PartialEq)]
pub struct Member {
    pub secret: Fr,
    pub limit: Fr,
    pub index: usize,
}

#[derive(Clone, Debug, PartialEq)]
pub enum LogEv {
    Set { index: usize, value: Fr },
    Remove { index: usize },
    Range { start: usize, values: Vec<Fr> },
    /// several removals in one batch call (atomic_operation with indices only)
    RemoveMany { indices: Vec<usize> },
}

#[derive(Clone, Debug, PartialEq)]
pub enum Alter {
    None,
    /// replace public value f (0 root, 1 ext, 2 x, 3 y, 4 nullifier) by these 32 bytes
    Field { f: usize, bytes: Vec<u8>, note: String },
    ProofBit { bit: usize },
    /// replace the attached signal (declared length consistent)
    Signal { bytes: Vec<u8> },
    /// overwrite the declared signal length, bytes unchanged
    DeclaredLen { len: u64 },
    Truncate { len: usize },
    Append { bytes: Vec<u8> },
    /// replace the whole input
    Raw { bytes: Vec<u8> },
}

impl Alter {
    pub fn kind(&self) -> &'static str {
        match self {
            Alter::None => "none",
            Alter::Field { .. } => "field",
            Alter::ProofBit { .. } => "proof_bit",
            Alter::Signal { .. } => "signal",
            Alter::DeclaredLen { .. } => "declared_len",
            Alter::Truncate { .. } => "truncate",
            Alter::Append { .. } => "append",
            Alter::Raw { .. } => "raw",
        }
    }
    pub fn to_json(&self) -> Value {
        match self {
            Alter::None => json!({"k":"none"}),
            Alter::Field { f, bytes, note } => json!({"k":"field","f":*f as u64,"bytes":hex(bytes),"note":note}),
            Alter::ProofBit { bit } => json!({"k":"proof_bit","bit":*bit as u64}),
            Alter::Signal { bytes } => json!({"k":"signal","bytes":hex(bytes)}),
            Alter::DeclaredLen { len } => json!({"k":"declared_len","len":len.to_string()}),
            Alter::Truncate { len } => json!({"k":"truncate","len":*len as u64}),
            Alter::Append { bytes } => json!({"k":"append","bytes":hex(bytes)}),
            Alter::Raw { bytes } => json!({"k":"raw","bytes":hex(bytes)}),
        }
    }
    pub fn from_json(v: &Value) -> Alter {
        let hb = |k: &str| unhex(v[k].as_str().unwrap_or(""));
        match v["k"].as_str().unwrap_or("none") {
            "field" => Alter::Field { f: v["f"].as_u64().unwrap_or(0) as usize, bytes: hb("bytes"), note: v["note"].as_str().unwrap_or("").to_string() },
            "proof_bit" => Alter::ProofBit { bit: v["bit"].as_u64().unwrap_or(0) as usize },
            "signal" => Alter::Signal { bytes: hb("bytes") },
            "declared_len" => Alter::DeclaredLen { len: v["len"].as_str().and_then(|s| s.parse().ok()).unwrap_or(0) },
            "truncate" => Alter::Truncate { len: v["len"].as_u64().unwrap_or(0) as usize },
            "append" => Alter::Append { bytes: hb("bytes") },
            "raw" => Alter::Raw { bytes: hb("bytes") },
            _ => Alter::None,
        }
    }
}

/// Root set handed to verify_with_roots.
#[derive(Clone, Debug, PartialEq)]
pub enum Roots {
    Window,
    Exact,
    Empty,
    /// non-empty set of values that are not the message's root
    Without,
    /// window plus unrelated values
    WindowPlus,
    Raw(Vec<u8>),
    /// near misses built from the message's own root at run time, none of which contains the root as an entry:
    /// kind 0: the root's 32 bytes straddle two adjacent entries (first `at` bytes end one entry, the rest start the next);
    /// kind 1: an entry equal to the root except for one bit of byte `at`; kind 2: the root's bytes in reverse order
    Near { kind: u8, at: usize },
    /// a non-empty set without the message's root, delivered through a reader that reports a hard error after `fail_at`
    /// bytes (the message itself arrives intact): whatever the call answers, it must not be acceptance
    WithoutFailing { fail_at: usize },
}

impl Roots {
    pub fn to_json(&self) -> Value {
        match self {
            Roots::Window => json!("window"),
            Roots::Exact => json!("exact"),
            Roots::Empty => json!("empty"),
            Roots::Without => json!("without"),
            Roots::WindowPlus => json!("window_plus"),
            Roots::Raw(b) => json!({"raw": hex(b)}),
            Roots::Near { kind, at } => json!({"near": *kind, "at": *at as u64}),
            Roots::WithoutFailing { fail_at } => json!({"without_failing_at": *fail_at as u64}),
        }
    }
    pub fn from_json(v: &Value) -> Roots {
        if v.is_object() {
            if let Some(k) = v["without_failing_at"].as_u64() {
                return Roots::WithoutFailing { fail_at: k as usize };
            }
            if let Some(k) = v["near"].as_u64() {
                return Roots::Near { kind: k as u8, at: v["at"].as_u64().unwrap_or(1) as usize };
            }
            return Roots::Raw(unhex(v["raw"].as_str().unwrap_or("")));
        }
        match v.as_str().unwrap_or("window") {
            "exact" => Roots::Exact,
            "empty" => Roots::Empty,
            "without" => Roots::Without,
            "window_plus" => Roots::WindowPlus,
            _ => Roots::Window,
        }
    }
}

#[derive(Clone, Debug, PartialEq)]
pub enum Step {
    /// node applies log events [applied, upto) through API shape `shape`
    Apply { node: usize, upto: usize, shape: u8 },
    /// publisher builds message `msg`; entry: 0 generate_rln_proof, 1 witness -> generate_rln_proof_with_witness,
    /// 2 external witness vector -> generate_proof_with_witness + own values, 3 raw prove + own values
    Publish { msg: usize, node: usize, member: usize, entry: u8, id: Fr, ext: Fr, signal: Vec<u8>, reader: ReadPlan, writer: WritePlan },
    /// one copy of message `msg` reaches `node`; via: 0 verify, 1 verify_rln_proof, 2 verify_with_roots
    Deliver { msg: usize, node: usize, via: u8, alter: Alter, roots: Roots, reader: ReadPlan },
    /// recover_id_secret(a, b) on `node`
    Recover { a: usize, b: usize, node: usize, alter_a: Alter, alter_b: Alter },
    /// synthetic pair of share carriers (no zk proof needed by recover_id_secret)
    RecoverSynth { secret: Fr, ext1: Fr, ext2: Fr, id: Fr, x1: Fr, x2: Fr, y2_delta: Fr, node: usize },
    /// arbitrary proving request (C12)
    Prove { node: usize, entry: u8, secret: Fr, index: u64, limit: Fr, id: Fr, ext: Fr, signal: Vec<u8>,
            path_len: i64, dir_tweak: i64, truncate: i64, reader: ReadPlan, writer: WritePlan },
    /// proving request on a separate instance whose tree depth differs from the circuit's (C12: a configuration the
    /// circuit cannot satisfy - the path has the wrong length); the leaf is registered there first
    ProveAlt { depth: usize, secret: Fr, index: u64, limit: Fr, id: Fr, ext: Fr, signal: Vec<u8> },
}

#[derive(Clone, Debug, PartialEq)]
pub struct Trace {
    pub prop: String,
    pub seed: u64,
    pub nodes: usize,
    pub window: usize,
    pub members: Vec<Member>,
    pub log: Vec<LogEv>,
    pub steps: Vec<Step>,
}

fn logev_to_json(e: &LogEv) -> Value {
    match e {
        LogEv::Set { index, value } => json!({"e":"set","index":*index as u64,"value":fr_to_json(value)}),
        LogEv::Remove { index } => json!({"e":"remove","index":*index as u64}),
        LogEv::Range { start, values } => json!({"e":"range","start":*start as u64,"values":frs_to_json(values)}),
        LogEv::RemoveMany { indices } => json!({"e":"remove_many","indices":usizes_to_json(indices)}),
    }
}

fn logev_from_json(v: &Value) -> Option<LogEv> {
    Some(match v["e"].as_str()? {
        "set" => LogEv::Set { index: v["index"].as_u64()? as usize, value: fr_from_json(&v["value"]) },
        "remove" => LogEv::Remove { index: v["index"].as_u64()? as usize },
        "range" => LogEv::Range { start: v["start"].as_u64()? as usize, values: frs_from_json(&v["values"]) },
        "remove_many" => LogEv::RemoveMany { indices: usizes_from_json(&v["indices"]) },
        _ => return None,
    })
}

impl Step {
    pub fn kind(&self) -> &'static str {
        match self {
            Step::Apply { .. } => "apply",
            Step::Publish { .. } => "publish",
            Step::Deliver { .. } => "deliver",
            Step::Recover { .. } => "recover",
            Step::RecoverSynth { .. } => "recover_synth",
            Step::Prove { .. } => "prove",
            Step::ProveAlt { .. } => "prove_alt",
        }
    }
    pub fn to_json(&self) -> Value {
        match self {
            Step::Apply { node, upto, shape } => json!({"t":"apply","node":*node as u64,"upto":*upto as u64,"shape":*shape}),
            Step::Publish { msg, node, member, entry, id, ext, signal, reader, writer } => json!({
                "t":"publish","msg":*msg as u64,"node":*node as u64,"member":*member as u64,"entry":*entry,
                "id":fr_to_json(id),"ext":fr_to_json(ext),"signal":hex(signal),"reader":reader.to_json(),"writer":writer.to_json()}),
            Step::Deliver { msg, node, via, alter, roots, reader } => json!({
                "t":"deliver","msg":*msg as u64,"node":*node as u64,"via":*via,"alter":alter.to_json(),"roots":roots.to_json(),"reader":reader.to_json()}),
            Step::Recover { a, b, node, alter_a, alter_b } => json!({
                "t":"recover","a":*a as u64,"b":*b as u64,"node":*node as u64,"alter_a":alter_a.to_json(),"alter_b":alter_b.to_json()}),
            Step::RecoverSynth { secret, ext1, ext2, id, x1, x2, y2_delta, node } => json!({
                "t":"recover_synth","secret":fr_to_json(secret),"ext1":fr_to_json(ext1),"ext2":fr_to_json(ext2),"id":fr_to_json(id),
                "x1":fr_to_json(x1),"x2":fr_to_json(x2),"y2_delta":fr_to_json(y2_delta),"node":*node as u64}),
            Step::Prove { node, entry, secret, index, limit, id, ext, signal, path_len, dir_tweak, truncate, reader, writer } => json!({
                "t":"prove","node":*node as u64,"entry":*entry,"secret":fr_to_json(secret),"index":index.to_string(),"limit":fr_to_json(limit),
                "id":fr_to_json(id),"ext":fr_to_json(ext),"signal":hex(signal),"path_len":*path_len,"dir_tweak":*dir_tweak,"truncate":*truncate,
                "reader":reader.to_json(),"writer":writer.to_json()}),
            Step::ProveAlt { depth, secret, index, limit, id, ext, signal } => json!({
                "t":"prove_alt","depth":*depth as u64,"secret":fr_to_json(secret),"index":index.to_string(),"limit":fr_to_json(limit),
                "id":fr_to_json(id),"ext":fr_to_json(ext),"signal":hex(signal)}),
        }
    }
    pub fn from_json(v: &Value) -> Option<Step> {
        let u = |k: &str| v[k].as_u64().unwrap_or(0) as usize;
        let rp = |k: &str| if v[k].is_object() { ReadPlan::from_json(&v[k]) } else { ReadPlan::clean() };
        let wp = |k: &str| if v[k].is_object() { WritePlan::from_json(&v[k]) } else { WritePlan::clean() };
        Some(match v["t"].as_str()? {
            "apply" => Step::Apply { node: u("node"), upto: u("upto"), shape: u("shape") as u8 },
            "publish" => Step::Publish {
                msg: u("msg"), node: u("node"), member: u("member"), entry: u("entry") as u8,
                id: fr_from_json(&v["id"]), ext: fr_from_json(&v["ext"]), signal: unhex(v["signal"].as_str().unwrap_or("")),
                reader: rp("reader"), writer: wp("writer"),
            },
            "deliver" => Step::Deliver {
                msg: u("msg"), node: u("node"), via: u("via") as u8, alter: Alter::from_json(&v["alter"]),
                roots: Roots::from_json(&v["roots"]), reader: rp("reader"),
            },
            "recover" => Step::Recover { a: u("a"), b: u("b"), node: u("node"), alter_a: Alter::from_json(&v["alter_a"]), alter_b: Alter::from_json(&v["alter_b"]) },
            "recover_synth" => Step::RecoverSynth {
                secret: fr_from_json(&v["secret"]), ext1: fr_from_json(&v["ext1"]), ext2: fr_from_json(&v["ext2"]), id: fr_from_json(&v["id"]),
                x1: fr_from_json(&v["x1"]), x2: fr_from_json(&v["x2"]), y2_delta: fr_from_json(&v["y2_delta"]), node: u("node"),
            },
            "prove" => Step::Prove {
                node: u("node"), entry: u("entry") as u8, secret: fr_from_json(&v["secret"]),
                index: v["index"].as_str().and_then(|s| s.parse().ok()).unwrap_or(0),
                limit: fr_from_json(&v["limit"]), id: fr_from_json(&v["id"]), ext: fr_from_json(&v["ext"]),
                signal: unhex(v["signal"].as_str().unwrap_or("")),
                path_len: v["path_len"].as_i64().unwrap_or(-1), dir_tweak: v["dir_tweak"].as_i64().unwrap_or(-1),
                truncate: v["truncate"].as_i64().unwrap_or(-1), reader: rp("reader"), writer: wp("writer"),
            },
            "prove_alt" => Step::ProveAlt {
                depth: u("depth"), secret: fr_from_json(&v["secret"]),
                index: v["index"].as_str().and_then(|s| s.parse().ok()).unwrap_or(0),
                limit: fr_from_json(&v["limit"]), id: fr_from_json(&v["id"]), ext: fr_from_json(&v["ext"]),
                signal: unhex(v["signal"].as_str().unwrap_or("")),
            },
            _ => return None,
        })
    }
}

impl Trace {
    pub fn to_json(&self) -> Value {
        json!({
            "engine": "e2", "property": self.prop, "seed": self.seed, "nodes": self.nodes as u64, "window": self.window as u64,
            "members": self.members.iter().map(|m| json!({"secret":fr_to_json(&m.secret),"limit":fr_to_json(&m.limit),"index":m.index as u64})).collect::<Vec<_>>(),
            "log": self.log.iter().map(logev_to_json).collect::<Vec<_>>(),
            "steps": self.steps.iter().map(|s| s.to_json()).collect::<Vec<_>>(),
        })
    }
    pub fn from_json(v: &Value) -> Option<Trace> {
        Some(Trace {
            prop: v["property"].as_str()?.to_string(),
            seed: v["seed"].as_u64().unwrap_or(0),
            nodes: v["nodes"].as_u64()? as usize,
            window: v["window"].as_u64().unwrap_or(5) as usize,
            members: v["members"].as_array()?.iter().map(|m| Member {
                secret: fr_from_json(&m["secret"]), limit: fr_from_json(&m["limit"]), index: m["index"].as_u64().unwrap_or(0) as usize,
            }).collect(),
            log: v["log"].as_array()?.iter().filter_map(logev_from_json).collect(),
            steps: v["steps"].as_array()?.iter().filter_map(Step::from_json).collect(),
        })
    }
    pub fn digest(&self) -> u64 {
        fnv_str(&self.to_json().to_string())
    }
}

// ------------------------------------------------------------------------------------------------
// Runtime
// ------------------------------------------------------------------------------------------------

#[derive(Clone, Debug)]
pub struct Violation {
    pub prop: String,
    pub step: usize,
    pub step_kind: String,
    pub clause: String,
    pub detail: String,
}

impl Violation {
    pub fn class(&self) -> String {
        format!("{}|{}|{}", self.prop, self.step_kind, self.clause)
    }
    pub fn to_json(&self) -> Value {
        json!({"property": self.prop, "step": self.step as u64, "step_kind": self.step_kind, "clause": self.clause,
               "detail": self.detail, "class": self.class()})
    }
}

struct NodeRt {
    rln: RLN,
    model: IdealTree,
    applied: usize,
    window: VecDeque<Fr>,
}

#[derive(Clone)]
struct MsgRt {
    bytes: Vec<u8>,
    signal: Vec<u8>,
    root: Fr,
    member: usize,
    id: Fr,
    ext: Fr,
    ok: bool,
}

pub struct Ctx<'a> {
    pub prop: &'a str,
    pub known: &'a HashSet<String>,
    pub counters: Counters,
    pub log: Fnv,
    pub proofs: u64,
    pub deliveries: u64,
}

impl<'a> Ctx<'a> {
    pub fn new(prop: &'a str, known: &'a HashSet<String>) -> Self {
        Ctx { prop, known, counters: Counters::default(), log: Fnv::new(), proofs: 0, deliveries: 0 }
    }
}

pub struct RunOutcome {
    pub violation: Option<Violation>,
    pub harness_error: Option<String>,
}

fn apply_model(m: &mut IdealTree, e: &LogEv) {
    match e {
        LogEv::Set { index, value } => {
            m.set(*index, *value);
        }
        LogEv::Remove { index } => {
            m.delete(*index);
        }
        LogEv::Range { start, values } => {
            m.set_range(*start, values);
        }
        LogEv::RemoveMany { indices } => {
            for i in indices {
                m.delete(*i);
            }
        }
    }
}

fn apply_node(n: &mut NodeRt, e: &LogEv, shape: u8) -> Result<(), String> {
    let r = match e {
        LogEv::Set { index, value } => match shape % 3 {
            0 => n.rln.set_leaf(*index, Cursor::new(fr_to_le32(value).to_vec())),
            1 => n.rln.set_leaves_from(*index, Cursor::new(crate::e1::enc_vec_fr(&[*value]))),
            _ => n.rln.atomic_operation(*index, Cursor::new(crate::e1::enc_vec_fr(&[*value])), Cursor::new(crate::e1::enc_vec_u8(&[]))),
        },
        LogEv::Remove { index } => n.rln.delete_leaf(*index),
        // pmtree's batch insertion walks every leaf of the right half below the written range, so a
        // range write near the end of a depth-20 tree takes ~10 s: high ranges go leaf by leaf
        LogEv::Range { start, values } => match if *start >= (1 << 16) { 0 } else { shape % 3 } {
            0 => {
                let mut r = Ok(());
                for (k, v) in values.iter().enumerate() {
                    r = n.rln.set_leaf(start + k, Cursor::new(fr_to_le32(v).to_vec()));
                    if r.is_err() {
                        break;
                    }
                }
                r
            }
            1 => n.rln.set_leaves_from(*start, Cursor::new(crate::e1::enc_vec_fr(values))),
            _ => n.rln.atomic_operation(*start, Cursor::new(crate::e1::enc_vec_fr(values)), Cursor::new(crate::e1::enc_vec_u8(&[]))),
        },
        // removal indices travel as single bytes at the byte level: the batch form needs all of them < 256
        LogEv::RemoveMany { indices } => {
            if shape % 3 != 0 && indices.iter().all(|i| *i < 256) {
                let idx: Vec<u8> = indices.iter().map(|i| *i as u8).collect();
                n.rln.atomic_operation(0, Cursor::new(crate::e1::enc_vec_fr(&[])), Cursor::new(crate::e1::enc_vec_u8(&idx)))
            } else {
                let mut r = Ok(());
                for i in indices {
                    // a position at or above the leaf count holds the default already (delete_leaf refuses it)
                    if *i < n.rln.leaves_set() {
                        r = n.rln.delete_leaf(*i);
                        if r.is_err() {
                            break;
                        }
                    }
                }
                r
            }
        }
    };
    r.map_err(|e| e.to_string())
}

fn node_root(n: &NodeRt) -> Result<Fr, String> {
    let mut w = Vec::new();
    n.rln.get_root(&mut w).map_err(|e| e.to_string())?;
    Ok(fr_from_le(&w))
}

/// Applies an alteration to a verify input built from (message, signal).
pub fn altered_input(msg: &[u8], signal: &[u8], a: &Alter, with_signal: bool) -> Vec<u8> {
    let base = |m: &[u8], s: &[u8]| if with_signal { enc_verify_input(m, s) } else { m.to_vec() };
    match a {
        Alter::None => base(msg, signal),
        Alter::Field { f, bytes, .. } => {
            let mut m = msg.to_vec();
            let off = 128 + 32 * f;
            if m.len() >= off + 32 && bytes.len() == 32 {
                m[off..off + 32].copy_from_slice(bytes);
            }
            base(&m, signal)
        }
        Alter::ProofBit { bit } => {
            let mut m = msg.to_vec();
            if m.len() > bit / 8 {
                m[bit / 8] ^= 1 << (bit % 8);
            }
            base(&m, signal)
        }
        Alter::Signal { bytes } => base(msg, bytes),
        Alter::DeclaredLen { len } => {
            let mut b = base(msg, signal);
            if with_signal && b.len() >= msg.len() + 8 {
                b[msg.len()..msg.len() + 8].copy_from_slice(&len.to_le_bytes());
            }
            b
        }
        Alter::Truncate { len } => {
            let mut b = base(msg, signal);
            b.truncate(*len);
            b
        }
        Alter::Append { bytes } => {
            let mut b = base(msg, signal);
            b.extend_from_slice(bytes);
            b
        }
        Alter::Raw { bytes } => bytes.clone(),
    }
}

#[derive(Debug, Clone, Copy, PartialEq)]
pub enum Verdict {
    True,
    False,
    Err,
    Panic,
}

fn verdict(r: Result<color_eyre::Result<bool>, String>) -> (Verdict, String) {
    match r {
        Ok(Ok(true)) => (Verdict::True, String::new()),
        Ok(Ok(false)) => (Verdict::False, String::new()),
        Ok(Err(e)) => (Verdict::Err, e.to_string()),
        Err(p) => (Verdict::Panic, p),
    }
}

fn call_verify(n: &NodeRt, via: u8, input: &[u8], roots: &[u8], plan: &ReadPlan, ctx: &mut Ctx) -> (Verdict, String) {
    call_verify2(n, via, input, roots, plan, None, ctx)
}

fn call_verify2(n: &NodeRt, via: u8, input: &[u8], roots: &[u8], plan: &ReadPlan, roots_plan: Option<&ReadPlan>, ctx: &mut Ctx) -> (Verdict, String) {
    let mut rd = SimReader::new(input, plan.clone());
    let out = match via {
        0 => verdict(guarded(|| n.rln.verify(&mut rd))),
        1 => verdict(guarded(|| n.rln.verify_rln_proof(&mut rd))),
        _ => {
            let mut rr = SimReader::new(roots, roots_plan.cloned().unwrap_or_else(|| plan.clone()));
            verdict(guarded(|| n.rln.verify_with_roots(&mut rd, &mut rr)))
        }
    };
    ctx.counters.add("fault.reader_short_read", rd.stats.short_reads);
    ctx.counters.add("fault.reader_interrupted", rd.stats.interrupts);
    ctx.counters.add("fault.reader_error", rd.stats.read_errors);
    out
}

/// calculate_rln_witness returned a plain vector before the "fix:" commit that made the witness
/// calculation fallible; accepting both keeps the harness buildable against either tree.
trait IntoWitness {
    fn into_witness(self) -> Result<Vec<Fr>, String>;
}
impl IntoWitness for Vec<Fr> {
    fn into_witness(self) -> Result<Vec<Fr>, String> {
        Ok(self)
    }
}
impl<E: std::fmt::Display> IntoWitness for Result<Vec<Fr>, E> {
    fn into_witness(self) -> Result<Vec<Fr>, String> {
        self.map_err(|e| e.to_string())
    }
}

pub fn into_witness_pub<T: IntoWitnessPub>(x: T) -> Result<Vec<Fr>, String> {
    x.conv()
}
pub trait IntoWitnessPub {
    fn conv(self) -> Result<Vec<Fr>, String>;
}
impl IntoWitnessPub for Vec<Fr> {
    fn conv(self) -> Result<Vec<Fr>, String> {
        Ok(self)
    }
}
impl<E: std::fmt::Display> IntoWitnessPub for Result<Vec<Fr>, E> {
    fn conv(self) -> Result<Vec<Fr>, String> {
        self.map_err(|e| e.to_string())
    }
}

fn to_bigints(w: &[Fr]) -> Vec<num_bigint::BigInt> {
    w.iter().map(|f| num_bigint::BigInt::from(fr_to_biguint(f))).collect()
}

/// Builds a message through one of the four proving entry points.
/// Returns Ok(message bytes) / Err(error text); a panic is reported by the caller's guard.
#[allow(clippy::too_many_arguments)]
/// Witness bytes `[secret|limit|id|path: count8 + 32n|dirs: count8 + n|x|ext]` with a lying count or cut short.
fn mangle_witness(mut w: Vec<u8>, code: usize) -> Vec<u8> {
    if w.len() < 104 {
        return w;
    }
    let n = u64::from_le_bytes(w[96..104].try_into().unwrap());
    match code {
        0..=5 => {
            let v = [n + 1, 1 << 32, 1 << 59, (1 << 61) + 1, u64::MAX, u64::MAX / 32][code];
            w[96..104].copy_from_slice(&v.to_le_bytes());
        }
        6..=9 => {
            let off = 104 + 32 * n as usize;
            if w.len() >= off + 8 {
                let v = [n + 1, 1 << 63, u64::MAX, u64::MAX - 7][code - 6];
                w[off..off + 8].copy_from_slice(&v.to_le_bytes());
            }
        }
        _ => {
            let at = ((code - 10) * 37) % w.len();
            w.truncate(at);
        }
    }
    w
}

fn prove_via(
    n: &mut NodeRt,
    entry: u8,
    secret: &Fr,
    index: u64,
    limit: &Fr,
    id: &Fr,
    ext: &Fr,
    signal: &[u8],
    path_override: Option<(Vec<Fr>, Vec<u8>)>,
    truncate: Option<usize>,
    declared: Option<u64>,
    wit_mangle: Option<usize>,
    reader: &ReadPlan,
    writer: &WritePlan,
    ctx: &mut Ctx,
) -> Result<Vec<u8>, String> {
    let x = hash_to_field(signal);
    let request = {
        let mut b = enc_request(secret, index, limit, id, ext, signal);
        if let Some(l) = declared {
            // the declared signal length (8 bytes after the five fixed fields) says more than what follows
            b[136..144].copy_from_slice(&l.to_le_bytes());
        }
        if let Some(t) = truncate {
            b.truncate(t);
        }
        b
    };
    let model_path = || -> (Vec<Fr>, Vec<u8>) {
        if let Some(p) = &path_override {
            return p.clone();
        }
        if (index as usize) < CAP {
            n_path(&n.model, index as usize)
        } else {
            (vec![Fr::from(0u64); DEPTH], vec![0u8; DEPTH])
        }
    };
    fn n_path(m: &IdealTree, i: usize) -> (Vec<Fr>, Vec<u8>) {
        m.path(i)
    }
    let io = |ctx: &mut Ctx, rd: &SimReader, w: &SimWriter| {
        ctx.counters.add("fault.reader_short_read", rd.stats.short_reads);
        ctx.counters.add("fault.reader_interrupted", rd.stats.interrupts);
        ctx.counters.add("fault.reader_error", rd.stats.read_errors);
        ctx.counters.add("fault.writer_short_write", w.stats.short_writes);
        ctx.counters.add("fault.writer_interrupted", w.stats.write_interrupts);
        ctx.counters.add("fault.writer_error", w.stats.write_errors);
    };
    match entry {
        0 => {
            let mut rd = SimReader::new(&request, reader.clone());
            let mut w = SimWriter::new(writer.clone());
            let r = n.rln.generate_rln_proof(&mut rd, &mut w);
            io(ctx, &rd, &w);
            r.map_err(|e| e.to_string())?;
            Ok(w.out)
        }
        1 => {
            let wit = if let Some((p, d)) = &path_override {
                enc_witness(secret, limit, id, p, d, &x, ext)
            } else {
                let mut rd = SimReader::new(&request, reader.clone());
                n.rln.get_serialized_rln_witness(&mut rd).map_err(|e| e.to_string())?
            };
            let wit = match wit_mangle { Some(c) => mangle_witness(wit, c), None => wit };
            let mut rd2 = SimReader::new(&wit, reader.clone());
            let mut w = SimWriter::new(writer.clone());
            let r = n.rln.generate_rln_proof_with_witness(&mut rd2, &mut w);
            io(ctx, &rd2, &w);
            r.map_err(|e| e.to_string())?;
            Ok(w.out)
        }
        2 => {
            // witness vector computed outside the RLN object, own public values
            let (p, d) = model_path();
            let wit_bytes = enc_witness(secret, limit, id, &p, &d, &x, ext);
            let (wi, _) = rln::protocol::deserialize_witness(&wit_bytes).map_err(|e| e.to_string())?;
            let inputs = rln::protocol::inputs_for_witness_calculation(&wi).map_err(|e| e.to_string())?;
            let inputs = inputs.into_iter().map(|(k, v)| (k.to_string(), v));
            let full = rln::circuit::calculate_rln_witness(inputs, rln::circuit::graph_from_folder()).into_witness()?;
            let proof = rln::protocol::generate_proof_with_witness(to_bigints(&full), rln::circuit::zkey_from_folder())
                .map_err(|e| e.to_string())?;
            let mut out = Vec::new();
            ark_serialize::CanonicalSerialize::serialize_compressed(&proof, &mut out).map_err(|e| e.to_string())?;
            let (y, nullifier) = shares(secret, ext, id, &x);
            let root = fold_root(rate_commitment(secret, limit), &p, &d);
            out.extend_from_slice(&enc_values(&PublicValues { root, ext: *ext, x, y, nullifier }));
            Ok(out)
        }
        _ => {
            let (p, d) = model_path();
            let wit_bytes = enc_witness(secret, limit, id, &p, &d, &x, ext);
            let wit_bytes = match wit_mangle { Some(c) => mangle_witness(wit_bytes, c), None => wit_bytes };
            let mut rd = SimReader::new(&wit_bytes, reader.clone());
            let mut w = SimWriter::new(writer.clone());
            let r = n.rln.prove(&mut rd, &mut w);
            io(ctx, &rd, &w);
            r.map_err(|e| e.to_string())?;
            let mut out = w.out;
            let (y, nullifier) = shares(secret, ext, id, &x);
            let root = fold_root(rate_commitment(secret, limit), &p, &d);
            out.extend_from_slice(&enc_values(&PublicValues { root, ext: *ext, x, y, nullifier }));
            Ok(out)
        }
    }
}

fn owner_is(ctx: &Ctx, p: &str) -> bool {
    ctx.prop == p
}

pub fn run_trace(trace: &Trace, ctx: &mut Ctx) -> RunOutcome {
    let mut nodes: Vec<NodeRt> = Vec::new();
    for ni in 0..trace.nodes {
        // every fourth scenario builds its last node from caller-supplied resources (key file and witness graph bytes)
        let custom = trace.seed % 4 == 0 && ni + 1 == trace.nodes;
        let made = if custom {
            #[cfg(not(feature = "arkzkey"))]
            let zkey: &[u8] = rln::circuit::ZKEY_BYTES;
            #[cfg(feature = "arkzkey")]
            let zkey: &[u8] = rln::circuit::ARKZKEY_BYTES;
            ctx.counters.inc("reach.node_from_custom_resources");
            guarded(|| RLN::new_with_params(DEPTH, zkey.to_vec(), rln::circuit::graph_from_folder().to_vec(), Cursor::new(Vec::<u8>::new())))
        } else {
            guarded(|| RLN::new(DEPTH, Cursor::new("{}".to_string())))
        };
        match made {
            Ok(Ok(r)) => {
                let model = IdealTree::new(DEPTH);
                let mut window = VecDeque::new();
                window.push_back(model.root());
                nodes.push(NodeRt { rln: r, model, applied: 0, window });
            }
            other => {
                return RunOutcome { violation: None, harness_error: Some(format!("RLN::new failed: {:?}", other.map(|x| x.map(|_| ()).map_err(|e| e.to_string())))) };
            }
        }
    }
    let mut msgs: Vec<Option<MsgRt>> = Vec::new();
    let prop = ctx.prop.to_string();
    macro_rules! viol {
        ($owner:expr, $si:expr, $step:expr, $clause:expr, $detail:expr) => {{
            if owner_is(ctx, $owner) {
                return RunOutcome {
                    violation: Some(Violation { prop: prop.clone(), step: $si, step_kind: $step.kind().to_string(), clause: $clause.to_string(), detail: $detail }),
                    harness_error: None,
                };
            } else {
                ctx.counters.inc(&format!("foreign.{}.{}", $owner, $clause));
                if std::env::var("ZKSIM_DEBUG").is_ok() {
                    eprintln!("foreign {} {} step {}: {}", $owner, $clause, $si, $detail);
                }
            }
        }};
    }
    let timing = std::env::var("ZKSIM_TIMING").is_ok();
    let mut t_last = std::time::Instant::now();
    for (si, step) in trace.steps.iter().enumerate() {
        if timing {
            if si > 0 {
                eprintln!("  step {} {} took {:?}", si - 1, trace.steps[si - 1].kind(), t_last.elapsed());
            }
            t_last = std::time::Instant::now();
        }
        ctx.counters.inc(&format!("step.{}", step.kind()));
        ctx.log.add_u64(si as u64);
        match step {
            Step::Apply { node, upto, shape } => {
                let n = &mut nodes[*node];
                let upto = (*upto).min(trace.log.len());
                while n.applied < upto {
                    let e = &trace.log[n.applied];
                    apply_model(&mut n.model, e);
                    match guarded(|| apply_node(n, e, *shape)) {
                        Ok(Ok(())) => {}
                        other => return RunOutcome { violation: None, harness_error: Some(format!("log event {} failed on node {}: {:?}", n.applied, node, other)) },
                    }
                    n.applied += 1;
                    let r = n.model.root();
                    n.window.push_back(r);
                    while n.window.len() > trace.window {
                        n.window.pop_front();
                    }
                }
                // the membership layer itself is E1's subject; here it only has to agree
                match node_root(n) {
                    Ok(r) if r == n.model.root() => {}
                    other => return RunOutcome { violation: None, harness_error: Some(format!("node {} root differs from model after applying the log: {:?}", node, other.map(|x| fr_to_json(&x)))) },
                }
                if n.applied < trace.log.len() {
                    ctx.counters.inc("fault.membership_update_delayed");
                }
            }
            Step::Publish { msg, node, member, entry, id, ext, signal, reader, writer } => {
                let m = &trace.members[*member];
                let n = &mut nodes[*node];
                while msgs.len() <= *msg {
                    msgs.push(None);
                }
                // is this an honest, satisfiable request on this node?
                let registered = n.model.get(m.index) == rate_commitment(&m.secret, &m.limit);
                if !registered {
                    ctx.counters.inc("publish_skipped_member_not_in_tree");
                    continue;
                }
                ctx.proofs += 1;
                ctx.counters.inc(&format!("entry.{}", entry));
                let root_then = n.model.root();
                let r = guarded(|| prove_via(n, *entry, &m.secret, m.index as u64, &m.limit, id, ext, signal, None, None, None, None, reader, writer, ctx));
                let faulty_io = reader.fail_at.is_some() || writer.fail_at.is_some() || writer.zero_at.is_some();
                match r {
                    Err(p) => {
                        viol!("C01", si, step, "prove_panic", format!("entry {entry}: {p}"));
                        viol!("C12", si, step, "prove_panic", format!("entry {entry}: {p}"));
                    }
                    Ok(Err(e)) => {
                        if !faulty_io {
                            viol!("C01", si, step, "prove_failed", format!("entry {entry}: valid request rejected: {e}"));
                        } else {
                            ctx.counters.inc("prove_err_under_io_fault");
                        }
                    }
                    Ok(Ok(bytes)) => {
                        ctx.log.add(b"P");
                        // C12's decisive clause on every proving step: Ok => verifies on the prover's own node
                        let vin = enc_verify_input(&bytes, signal);
                        let (v, d) = if bytes.len() >= 288 {
                            call_verify(n, 1, &vin, &[], &ReadPlan::clean(), ctx)
                        } else {
                            (Verdict::False, format!("output has {} bytes", bytes.len()))
                        };
                        ctx.deliveries += 1;
                        if v != Verdict::True {
                            viol!("C12", si, step, "ok_but_unverifiable", format!("entry {entry}: proving returned Ok but own verify_rln_proof = {:?} {d}", v));
                            viol!("C01", si, step, "honest_rejected", format!("entry {entry}: own verify_rln_proof = {:?} {d}", v));
                        }
                        // published values equal the formulas (incidental: C04 is not claimed)
                        if let Some(pv) = dec_values(&bytes) {
                            let x = hash_to_field(signal);
                            let (y, nf) = shares(&m.secret, ext, id, &x);
                            if pv.root != root_then || pv.x != x || pv.y != y || pv.nullifier != nf || pv.ext != *ext {
                                viol!("C01", si, step, "public_values", format!("entry {entry}: published values differ from the RLN formulas"));
                            }
                        }
                        msgs[*msg] = Some(MsgRt { bytes, signal: signal.clone(), root: root_then, member: *member, id: *id, ext: *ext, ok: v == Verdict::True });
                    }
                }
            }
            Step::Deliver { msg, node, via, alter, roots, reader } => {
                let m = match msgs.get(*msg).and_then(|x| x.clone()) {
                    Some(m) => m,
                    None => {
                        ctx.counters.inc("deliver_skipped_no_message");
                        continue;
                    }
                };
                if !m.ok {
                    continue;
                }
                let n = &nodes[*node];
                let with_signal = *via != 0;
                let other_bytes: Option<Vec<u8>> = msgs
                    .iter()
                    .enumerate()
                    .filter(|(k, x)| *k != *msg && x.is_some())
                    .map(|(_, x)| x.as_ref().unwrap().bytes.clone())
                    .next();
                let resolved = match crate::e2gen::resolve_alter(alter, &m.bytes, other_bytes.as_deref()) {
                    Some(a) => a,
                    None => {
                        ctx.counters.inc("alter_not_applicable");
                        continue;
                    }
                };
                let alter = &resolved;
                let input = altered_input(&m.bytes, &m.signal, alter, with_signal);
                let honest_input = altered_input(&m.bytes, &m.signal, &Alter::None, with_signal);
                // root set
                let other = |k: u64| h(&[m.root, Fr::from(k)]);
                let (roots_bytes, root_ok): (Vec<u8>, bool) = match roots {
                    Roots::Window => (enc_roots(&n.window.iter().copied().collect::<Vec<_>>()), n.window.contains(&m.root)),
                    Roots::Exact => (enc_roots(&[m.root]), true),
                    Roots::Empty => (Vec::new(), true),
                    Roots::Without | Roots::WithoutFailing { .. } => (enc_roots(&[other(1), other(2), other(3)]), false),
                    Roots::WindowPlus => {
                        let mut v: Vec<Fr> = vec![other(4)];
                        v.extend(n.window.iter().copied());
                        v.push(other(5));
                        let ok = n.window.contains(&m.root);
                        (enc_roots(&v), ok)
                    }
                    Roots::Near { kind, at } => {
                        let r = fr_to_le32(&m.root);
                        let mut b = enc_roots(&[other(6)]);
                        match kind {
                            0 => {
                                let s = (*at).clamp(1, 31);
                                b.extend(std::iter::repeat(0x11u8).take(32 - s));
                                b.extend_from_slice(&r[..s]);
                                b.extend_from_slice(&r[s..]);
                                b.extend(std::iter::repeat(0x22u8).take(s));
                            }
                            1 => {
                                let mut e = r;
                                e[*at % 32] ^= 1;
                                b.extend_from_slice(&e);
                            }
                            _ => {
                                let mut e = r;
                                e.reverse();
                                b.extend_from_slice(&e);
                            }
                        }
                        b.extend(enc_roots(&[other(7)]));
                        let mut ok = false;
                        let mut k = 0;
                        while k + 32 <= b.len() {
                            if b[k..k + 32] == r {
                                ok = true;
                            }
                            k += 32;
                        }
                        (b, ok)
                    }
                    Roots::Raw(b) => {
                        // well-formed membership cannot be asserted for raw bytes; decide by decoding
                        let mut ok = b.len() < 32;
                        let mut k = 0;
                        while k + 32 <= b.len() {
                            if b[k..k + 32] == fr_to_le32(&m.root) {
                                ok = true;
                            }
                            k += 32;
                        }
                        (b.clone(), ok)
                    }
                };
                let cond_root = match via {
                    0 => true,
                    1 => n.model.root() == m.root,
                    _ => root_ok,
                };
                let semantically_null = input == honest_input
                    || matches!(alter, Alter::Append { .. })                      // trailing bytes after the declared signal are not part of the message
                    || (matches!(alter, Alter::Signal { .. } | Alter::DeclaredLen { .. }) && *via == 0);
                let roots_plan = match roots {
                    Roots::WithoutFailing { fail_at } => {
                        let mut p = ReadPlan::clean();
                        p.fail_at = Some(*fail_at);
                        if *fail_at % 3 == 1 {
                            p.chunk = 7;
                        }
                        Some(p)
                    }
                    _ => None,
                };
                let (v, d) = call_verify2(n, *via, &input, &roots_bytes, reader, roots_plan.as_ref(), ctx);
                ctx.deliveries += 1;
                if roots_plan.is_some() {
                    ctx.counters.inc("reach.roots_reader_failed");
                    if v == Verdict::Panic {
                        viol!("C13", si, step, "panic_on_reader_error", d.clone());
                    }
                    if v == Verdict::True && !cond_root {
                        viol!("C02", si, step, "accepted_with_wrong_root", format!("via {via} roots {}: the root set could not be read completely and does not contain the message's root, yet the message was accepted", roots.to_json()));
                    }
                    continue;
                }
                ctx.counters.inc(&format!("alter.{}", alter.kind()));
                ctx.counters.inc(&format!("via.{}", via));
                // proof bytes are random (blinding from thread_rng): whether an altered proof fails to decode
                // (Err) or decodes and fails (false) is not under the simulator's control, so the log records
                // only the class the oracle distinguishes
                ctx.log.add(match v { Verdict::True => b"T", Verdict::Panic => b"P", _ => b"N" });
                if reader.fail_at.is_some() {
                    // a failing stream: any outcome but acceptance of a broken condition / panic
                    if v == Verdict::Panic {
                        viol!("C13", si, step, "panic_on_reader_error", d.clone());
                    }
                    continue;
                }
                if v == Verdict::Panic {
                    if matches!(alter, Alter::None) {
                        viol!("C01", si, step, "verify_panic_on_honest_message", d.clone());
                    }
                    viol!("C13", si, step, "panic_on_untrusted_input", format!("via {via} alter {}: {d}", alter.to_json()));
                    continue;
                }
                if semantically_null && matches!(alter, Alter::None) {
                    if cond_root {
                        ctx.counters.inc(match (via, roots) {
                            (2, Roots::Window) | (2, Roots::WindowPlus) if n.model.root() != m.root => "reach.root_in_window_but_not_current",
                            _ => "reach.honest_delivery",
                        });
                        if v != Verdict::True {
                            viol!("C01", si, step, "honest_rejected", format!("via {via} roots {}: {:?} {d}", roots.to_json(), v));
                        }
                    } else {
                        ctx.counters.inc("reach.root_not_allowed");
                        if v == Verdict::True {
                            viol!("C02", si, step, "accepted_with_wrong_root", format!("via {via} roots {}: message root is not allowed for this verifier", roots.to_json()));
                        }
                    }
                } else if !semantically_null {
                    let alias = matches!(alter, Alter::Field { note, .. } if note.starts_with("alias"));
                    if v == Verdict::True {
                        if alias {
                            viol!("C13", si, step, "alias_encoding_accepted", format!("via {via}: {}", alter.to_json()));
                        } else if matches!(alter, Alter::Truncate { .. } | Alter::Raw { .. }) || matches!(alter, Alter::DeclaredLen { len } if *len as usize > m.signal.len()) {
                            viol!("C13", si, step, "malformed_accepted", format!("via {via}: {}", alter.to_json()));
                            if matches!(alter, Alter::DeclaredLen { .. }) {
                                // C02 names the declared signal length among the things that must not be changeable
                                viol!("C02", si, step, "tampered_accepted", format!("via {via} roots {}: {}", roots.to_json(), alter.to_json()));
                            }
                        } else {
                            viol!("C02", si, step, "tampered_accepted", format!("via {via} roots {}: {}", roots.to_json(), alter.to_json()));
                        }
                    }
                }
            }
            Step::Recover { a, b, node, alter_a, alter_b } => {
                let (ma, mb) = match (msgs.get(*a).and_then(|x| x.clone()), msgs.get(*b).and_then(|x| x.clone())) {
                    (Some(x), Some(y)) => (x, y),
                    _ => continue,
                };
                let n = &nodes[*node];
                // value-dependent alterations ("plus1", "alias:k") are resolved against the message they alter
                let alter_a = &crate::e2gen::resolve_alter(alter_a, &ma.bytes, Some(&mb.bytes)).unwrap_or_else(|| alter_a.clone());
                let alter_b = &crate::e2gen::resolve_alter(alter_b, &mb.bytes, Some(&ma.bytes)).unwrap_or_else(|| alter_b.clone());
                let ia = altered_input(&ma.bytes, &ma.signal, alter_a, true);
                let ib = altered_input(&mb.bytes, &mb.signal, alter_b, true);
                let mut out = Vec::new();
                let r = guarded(|| n.rln.recover_id_secret(Cursor::new(ia.clone()), Cursor::new(ib.clone()), &mut out));
                let untrusted = !matches!(alter_a, Alter::None) || !matches!(alter_b, Alter::None);
                ctx.counters.inc("recover_calls");
                let (pa, pb) = (dec_values(&ma.bytes), dec_values(&mb.bytes));
                let sec = trace.members[ma.member].secret;
                match r {
                    Err(p) => {
                        if untrusted {
                            viol!("C13", si, step, "recover_panic_on_untrusted_input", p);
                        } else {
                            viol!("C03", si, step, "recover_panic", p);
                        }
                    }
                    Ok(res) => {
                        if untrusted {
                            // an argument that is too short to hold a proof and its public values carries no share: whatever
                            // the call answers, it must not hand out a secret
                            let short = ia.len() < 288 || ib.len() < 288;
                            if short {
                                ctx.counters.inc("reach.recover_from_short_input");
                                if res.is_ok() && !out.is_empty() {
                                    viol!("C13", si, step, "secret_recovered_from_short_input", format!("argument lengths {} and {}: recover_id_secret returned Ok and wrote {} bytes", ia.len(), ib.len(), out.len()));
                                }
                            }
                            continue;
                        }
                        // a message handed out by a successful proving call that does not even decode (short, shifted fields)
                        // cannot expose the secret: that is the property's violation, not a reason for the harness to stop
                        let (pa, pb) = match (pa, pb) {
                            (Some(x), Some(y)) => (x, y),
                            _ => {
                                viol!("C03", si, step, "secret_not_recovered", format!("generated message does not decode (lengths {} and {}); result {:?}", ma.bytes.len(), mb.bytes.len(), res.map_err(|e| e.to_string())));
                                continue;
                            }
                        };
                        let same_member = ma.member == mb.member;
                        let same_slot = same_member && ma.ext == mb.ext && ma.id == mb.id;
                        // nullifier clauses
                        if same_slot && pa.nullifier != pb.nullifier {
                            viol!("C03", si, step, "nullifiers_differ", "same secret, external nullifier and message id".to_string());
                        }
                        if same_member && !same_slot && pa.nullifier == pb.nullifier {
                            viol!("C03", si, step, "nullifiers_collide", "different external nullifier or message id".to_string());
                        }
                        if ma.ext != mb.ext {
                            ctx.counters.inc("reach.recover_across_external_nullifiers");
                            if !(res.is_ok() && out.is_empty()) && res.is_ok() {
                                viol!("C03", si, step, "secret_reported_across_external_nullifiers", hex(&out));
                            }
                        } else if pa.x == pb.x {
                            ctx.counters.inc("reach.degenerate_pair");
                            if res.is_ok() && !out.is_empty() && pa.y != pb.y {
                                viol!("C03", si, step, "degenerate_pair_yields_secret", hex(&out));
                            }
                        } else if same_slot {
                            ctx.counters.inc("reach.double_signal_recovered");
                            if res.is_err() || out != fr_to_le32(&sec) {
                                viol!("C03", si, step, "secret_not_recovered", format!("result {:?} output {}", res.map_err(|e| e.to_string()), hex(&out)));
                            }
                        }
                    }
                }
            }
            Step::RecoverSynth { secret, ext1, ext2, id, x1, x2, y2_delta, node } => {
                let n = &nodes[*node];
                let mk = |ext: &Fr, x: &Fr, delta: &Fr| -> Vec<u8> {
                    let (y, nf) = shares(secret, ext, id, x);
                    let mut b = vec![0u8; 128];
                    b.extend_from_slice(&enc_values(&PublicValues { root: Fr::from(0u64), ext: *ext, x: *x, y: y + *delta, nullifier: nf }));
                    b
                };
                let a = mk(ext1, x1, &Fr::from(0u64));
                let b = mk(ext2, x2, y2_delta);
                let mut out = Vec::new();
                let r = guarded(|| n.rln.recover_id_secret(Cursor::new(a.clone()), Cursor::new(b.clone()), &mut out));
                ctx.counters.inc("recover_calls");
                let zero = Fr::from(0u64);
                match r {
                    Err(p) => {
                        viol!("C03", si, step, "recover_panic", p);
                    }
                    Ok(res) => {
                        if ext1 != ext2 {
                            ctx.counters.inc("reach.recover_across_external_nullifiers");
                            if res.is_ok() && !out.is_empty() {
                                viol!("C03", si, step, "secret_reported_across_external_nullifiers", hex(&out));
                            }
                        } else if x1 == x2 {
                            ctx.counters.inc("reach.degenerate_pair");
                            // identical shares, or equal x with different y: an error or an empty result
                            if res.is_ok() && !out.is_empty() {
                                viol!("C03", si, step, "degenerate_pair_yields_secret", format!("x1 == x2, output {}", hex(&out)));
                            }
                        } else if *y2_delta == zero {
                            ctx.counters.inc("reach.double_signal_recovered");
                            if res.is_err() || out != fr_to_le32(secret) {
                                viol!("C03", si, step, "secret_not_recovered", format!("result {:?} output {}", res.map_err(|e| e.to_string()), hex(&out)));
                            }
                        }
                    }
                }
            }
            Step::Prove { node, entry, secret, index, limit, id, ext, signal, path_len, dir_tweak, truncate, reader, writer } => {
                let n = &mut nodes[*node];
                // what the reference circuit would accept
                let in_tree = (*index as usize) < CAP && *index < CAP as u64;
                let limit_u = fr_to_biguint(limit);
                let id_u = fr_to_biguint(id);
                let two16 = num_bigint::BigUint::from(1u64 << 16);
                // RangeCheck(16): Num2Bits(16)(id) and LessThan(16)(id, limit), i.e. id < 2^16,
                // id < limit and limit <= id + 2^16 (what the reference witness generator accepts)
                let range_ok = id_u < limit_u && id_u < two16 && limit_u <= &id_u + &two16;
                let leaf_ok = in_tree && n.model.get(*index as usize) == rate_commitment(secret, limit);
                let mut path_override = None;
                if *path_len >= 0 || *dir_tweak >= 0 {
                    let (mut p, mut d) = if in_tree { n.model.path(*index as usize) } else { (vec![Fr::from(0u64); DEPTH], vec![0u8; DEPTH]) };
                    if *path_len >= 0 {
                        // 0..99: both lists get that length; 100+k: only the sibling list (k entries); 200+k: only the direction list
                        let (pl, dl) = if *path_len >= 200 {
                            (p.len(), (*path_len - 200) as usize)
                        } else if *path_len >= 100 {
                            ((*path_len - 100) as usize, d.len())
                        } else {
                            (*path_len as usize, *path_len as usize)
                        };
                        p.resize(pl, Fr::from(3u64));
                        d.resize(dl, 0);
                    }
                    if *dir_tweak >= 0 && !d.is_empty() {
                        let k = (*dir_tweak as usize) % d.len();
                        d[k] = 2 + (*dir_tweak as u8 % 5);
                    }
                    path_override = Some((p, d));
                }
                let full_len = 32 * 4 + 16 + signal.len();
                // truncate <= -2 selects a declared signal length larger than the signal that follows (entries reading the request)
                let declared: Option<u64> = if *truncate <= -2 && *entry <= 1 && *path_len < 0 && *dir_tweak < 0 {
                    let sl = signal.len() as u64;
                    let table = [sl + 1, sl + 2, 1 << 16, 1 << 32, 1 << 63, u64::MAX, u64::MAX - 1, u64::MAX - 100, u64::MAX - 167, u64::MAX - 168, (1 << 63) - 1, u64::MAX - 143, u64::MAX - 144];
                    Some(table[((-2 - *truncate) as usize) % table.len()])
                } else {
                    None
                };
                let torn = (*truncate >= 0 && (*truncate as usize) < full_len && *entry <= 1 && *path_len < 0 && *dir_tweak < 0) || declared.is_some();
                // dir_tweak <= -2 selects a mangled witness (lying element count, or cut short) for the entries that take witness bytes
                let wit_mangle: Option<usize> = if *dir_tweak <= -2 && (*entry == 1 || *entry == 3) { Some((-2 - *dir_tweak) as usize) } else { None };
                let shape_ok = *path_len < 0 && *dir_tweak < 0 && !torn && wit_mangle.is_none();
                let satisfiable = in_tree && range_ok && leaf_ok && shape_ok;
                let trunc = if *truncate >= 0 { Some(*truncate as usize) } else { None };
                ctx.counters.inc(if satisfiable { "prove_requests_satisfiable" } else { "prove_requests_unsatisfiable" });
                let r = guarded(|| prove_via(n, *entry, secret, *index, limit, id, ext, signal, path_override.clone(), trunc, declared, wit_mangle, reader, writer, ctx));
                match r {
                    Err(p) => {
                        viol!("C12", si, step, "prove_panic", format!("entry {entry}: {p}"));
                    }
                    Ok(Err(_)) => {
                        ctx.counters.inc("prove_rejected");
                        let faulty_io = reader.fail_at.is_some() || writer.fail_at.is_some() || writer.zero_at.is_some();
                        if satisfiable && !faulty_io && limit_u <= two16 {
                            viol!("C01", si, step, "prove_failed", format!("entry {entry}: satisfiable request rejected: id {} limit {} index {index}", fr_to_json(id), fr_to_json(limit)));
                        }
                    }
                    Ok(Ok(bytes)) => {
                        ctx.proofs += 1;
                        // the message must verify against the values it carries (raw verify), and if it claims the
                        // node's current root also through verify_rln_proof
                        let (v0, d0) = if bytes.len() >= 288 { call_verify(n, 0, &bytes[..288.min(bytes.len())], &[], &ReadPlan::clean(), ctx) } else { (Verdict::False, "short output".into()) };
                        ctx.deliveries += 1;
                        if v0 != Verdict::True {
                            viol!("C12", si, step, "ok_but_unverifiable", format!("entry {entry}: proving returned Ok for id {} limit {} index {} (path_len {path_len}, dir_tweak {dir_tweak}) but verify = {:?} {d0}",
                                fr_to_json(id), fr_to_json(limit), index, v0));
                        } else if !range_ok || !shape_ok {
                            viol!("C12", si, step, "unsatisfiable_request_proved", format!("entry {entry}: id {} limit {} (path_len {path_len}, dir_tweak {dir_tweak}) proved and verified", fr_to_json(id), fr_to_json(limit)));
                        } else {
                            ctx.counters.inc("reach.prove_ok_verified");
                            // a request that is valid for the prover's current tree: the message must also be accepted
                            // against that tree (a proof for a root the tree no longer has is not one verification accepts)
                            if satisfiable && bytes.len() >= 288 {
                                let input = enc_verify_input(&bytes[..288], signal);
                                let (v1, d1) = call_verify(n, 1, &input, &[], &ReadPlan::clean(), ctx);
                                ctx.deliveries += 1;
                                if v1 != Verdict::True {
                                    viol!("C12", si, step, "ok_but_rejected_by_own_tree", format!("entry {entry}: proving returned Ok for a request valid in the prover's current tree (index {index}), raw verify accepts the proof, verify_rln_proof on the same instance = {:?} {d1}", v1));
                                }
                                ctx.counters.inc("reach.prove_ok_accepted_by_own_tree");
                            }
                        }
                    }
                }
            }
            Step::ProveAlt { depth, secret, index, limit, id, ext, signal } => {
                ctx.counters.inc("prove_requests_other_depth");
                match guarded(|| prove_alt(*depth, secret, *index, limit, id, ext, signal)) {
                    Err(p) => {
                        viol!("C12", si, step, "prove_panic", format!("instance of depth {depth}: {p}"));
                    }
                    Ok(Err(e)) => {
                        return RunOutcome { violation: None, harness_error: Some(format!("prove_alt setup: {e}")) };
                    }
                    Ok(Ok(None)) => {
                        ctx.counters.inc("prove_rejected");
                        ctx.log.add(&[0xa1, 0]);
                    }
                    Ok(Ok(Some((ok, d)))) => {
                        ctx.proofs += 1;
                        ctx.log.add(&[0xa1, 1, ok as u8]);
                        if !ok {
                            viol!("C12", si, step, "ok_but_unverifiable", format!("instance of depth {depth} (circuit depth {DEPTH}): proving returned Ok but verify_rln_proof = {d}"));
                        } else if *depth != DEPTH {
                            viol!("C12", si, step, "unsatisfiable_request_proved", format!("instance of depth {depth} (circuit depth {DEPTH}) proved and verified"));
                        }
                    }
                }
            }
        }
    }
    RunOutcome { violation: None, harness_error: None }
}

/// Ok(None): rejected; Ok(Some(verdict text)): proving returned Ok, with what verification on the same instance says
fn prove_alt(depth: usize, secret: &Fr, index: u64, limit: &Fr, id: &Fr, ext: &Fr, signal: &[u8]) -> Result<Option<(bool, String)>, String> {
    let mut r = RLN::new(depth, Cursor::new("{}".to_string())).map_err(|e| format!("RLN::new({depth}): {e}"))?;
    let idx = (index % (1u64 << depth)) as usize;
    r.set_leaf(idx, Cursor::new(fr_to_le32(&rate_commitment(secret, limit)).to_vec())).map_err(|e| format!("set_leaf: {e}"))?;
    let request = enc_request(secret, idx as u64, limit, id, ext, signal);
    let mut out = Vec::new();
    if r.generate_rln_proof(Cursor::new(request), &mut out).is_err() {
        return Ok(None);
    }
    let mut msg = out.clone();
    msg.extend_from_slice(&(signal.len() as u64).to_le_bytes());
    msg.extend_from_slice(signal);
    Ok(Some(match r.verify_rln_proof(Cursor::new(msg)) {
        Ok(true) => (true, "true".into()),
        Ok(false) => (false, "false".into()),
        Err(e) => (false, format!("Err({e})")),
    }))
}


// ------------------------------------------------------------------------------------------------
// Shrinking: drop steps (chunks, then single), keep the candidate if the same class persists.
// ------------------------------------------------------------------------------------------------

pub fn shrink(trace: &Trace, class: &str, known: &HashSet<String>, budget: usize) -> (Trace, usize) {
    let mut best = trace.clone();
    let mut used = 0usize;
    let fails = |t: &Trace, used: &mut usize| -> bool {
        *used += 1;
        let mut c = Ctx::new(&t.prop, known);
        let out = run_trace(t, &mut c);
        matches!(out.violation, Some(v) if v.class() == class)
    };
    // steps after the failing one never matter: find the failing step first
    {
        let mut c = Ctx::new(&best.prop, known);
        if let Some(v) = run_trace(&best, &mut c).violation {
            best.steps.truncate(v.step + 1);
        }
        used += 1;
    }
    let mut chunk = (best.steps.len() / 2).max(1);
    while used < budget {
        let mut i = 0;
        let mut progressed = false;
        while i < best.steps.len() && used < budget {
            let end = (i + chunk).min(best.steps.len());
            // never drop the last step (the failing one)
            if end >= best.steps.len() {
                break;
            }
            let mut t = best.clone();
            t.steps.drain(i..end);
            if fails(&t, &mut used) {
                best = t;
                progressed = true;
            } else {
                i += chunk;
            }
        }
        if chunk == 1 {
            if !progressed {
                break;
            }
        } else {
            chunk /= 2;
        }
    }
    // fewer log events
    let mut k = best.log.len();
    while k > 0 && used < budget {
        k -= 1;
        let mut t = best.clone();
        t.log.remove(k);
        for st in t.steps.iter_mut() {
            if let Step::Apply { upto, .. } = st {
                if *upto > k {
                    *upto -= 1;
                }
            }
        }
        if fails(&t, &mut used) {
            best = t;
        }
    }
    (best, used)
}
