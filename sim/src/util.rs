//! Shared helpers: field <-> JSON / bytes (independent of zerokit's codec), hashing, counters.

use ark_bn254::Fr;
use ark_ff::{BigInteger, PrimeField};
use num_bigint::BigUint;
use serde_json::{json, Value};
use std::collections::BTreeMap;

pub fn fr_to_le32(v: &Fr) -> [u8; 32] {
    let b = v.into_bigint().to_bytes_le();
    let mut out = [0u8; 32];
    out[..b.len()].copy_from_slice(&b);
    out
}

pub fn fr_from_le(b: &[u8]) -> Fr {
    Fr::from_le_bytes_mod_order(b)
}

pub fn modulus() -> BigUint {
    BigUint::from_bytes_le(&Fr::MODULUS.to_bytes_le())
}

pub fn fr_to_biguint(v: &Fr) -> BigUint {
    BigUint::from_bytes_le(&fr_to_le32(v))
}

pub fn fr_minus_one() -> Fr {
    -Fr::from(1u64)
}

/// Small values as decimal strings, everything else as 0x + 64 hex digits (big endian).
pub fn fr_to_json(v: &Fr) -> Value {
    let le = fr_to_le32(v);
    if le[8..].iter().all(|b| *b == 0) {
        let mut w = [0u8; 8];
        w.copy_from_slice(&le[..8]);
        Value::String(u64::from_le_bytes(w).to_string())
    } else {
        let mut s = String::from("0x");
        for b in le.iter().rev() {
            s.push_str(&format!("{:02x}", b));
        }
        Value::String(s)
    }
}

pub fn fr_from_json(v: &Value) -> Fr {
    match v {
        Value::String(s) => {
            if let Some(h) = s.strip_prefix("0x") {
                let mut be = Vec::new();
                let hb = h.as_bytes();
                let mut i = 0;
                while i + 1 < hb.len() {
                    be.push(u8::from_str_radix(&h[i..i + 2], 16).unwrap_or(0));
                    i += 2;
                }
                be.reverse();
                fr_from_le(&be)
            } else {
                Fr::from(s.parse::<u64>().unwrap_or(0))
            }
        }
        Value::Number(n) => Fr::from(n.as_u64().unwrap_or(0)),
        _ => Fr::from(0u64),
    }
}

pub fn frs_to_json(v: &[Fr]) -> Value {
    Value::Array(v.iter().map(fr_to_json).collect())
}

pub fn frs_from_json(v: &Value) -> Vec<Fr> {
    v.as_array()
        .map(|a| a.iter().map(fr_from_json).collect())
        .unwrap_or_default()
}

pub fn usizes_to_json(v: &[usize]) -> Value {
    Value::Array(v.iter().map(|x| json!(*x as u64)).collect())
}

pub fn usizes_from_json(v: &Value) -> Vec<usize> {
    v.as_array()
        .map(|a| a.iter().map(|x| x.as_u64().unwrap_or(0) as usize).collect())
        .unwrap_or_default()
}

pub fn hex(b: &[u8]) -> String {
    let mut s = String::with_capacity(b.len() * 2);
    for x in b {
        s.push_str(&format!("{:02x}", x));
    }
    s
}

pub fn unhex(s: &str) -> Vec<u8> {
    let mut out = Vec::with_capacity(s.len() / 2);
    let mut i = 0;
    while i + 1 < s.len() {
        out.push(u8::from_str_radix(&s[i..i + 2], 16).unwrap_or(0));
        i += 2;
    }
    out
}

/// FNV-1a 64; used for state / trace / schedule digests in evidence (not for security).
#[derive(Clone, Copy)]
pub struct Fnv(pub u64);
impl Fnv {
    pub fn new() -> Self {
        Fnv(0xcbf2_9ce4_8422_2325)
    }
    pub fn add(&mut self, b: &[u8]) {
        for x in b {
            self.0 ^= *x as u64;
            self.0 = self.0.wrapping_mul(0x100_0000_01b3);
        }
    }
    pub fn add_u64(&mut self, v: u64) {
        self.add(&v.to_le_bytes());
    }
    pub fn add_fr(&mut self, v: &Fr) {
        self.add(&fr_to_le32(v));
    }
}

pub fn fnv_str(s: &str) -> u64 {
    let mut f = Fnv::new();
    f.add(s.as_bytes());
    f.0
}

/// Named counters merged across runs and reported as evidence.
#[derive(Default, Clone, Debug)]
pub struct Counters(pub BTreeMap<String, u64>);
impl Counters {
    pub fn inc(&mut self, k: &str) {
        *self.0.entry(k.to_string()).or_insert(0) += 1;
    }
    pub fn add(&mut self, k: &str, n: u64) {
        *self.0.entry(k.to_string()).or_insert(0) += n;
    }
    pub fn merge(&mut self, o: &Counters) {
        for (k, v) in &o.0 {
            *self.0.entry(k.clone()).or_insert(0) += *v;
        }
    }
    pub fn to_json(&self) -> Value {
        let mut m = serde_json::Map::new();
        for (k, v) in &self.0 {
            m.insert(k.clone(), json!(*v));
        }
        Value::Object(m)
    }
}

/// Runs `f`, converting a panic into Err(message). The panic hook installed in main records the
/// message in a thread local and prints nothing.
pub fn guarded<T>(f: impl FnOnce() -> T) -> Result<T, String> {
    match std::panic::catch_unwind(std::panic::AssertUnwindSafe(f)) {
        Ok(v) => Ok(v),
        Err(e) => {
            let from_hook = crate::LAST_PANIC.with(|p| p.borrow_mut().take());
            let msg = from_hook.unwrap_or_else(|| {
                if let Some(s) = e.downcast_ref::<&str>() {
                    s.to_string()
                } else if let Some(s) = e.downcast_ref::<String>() {
                    s.clone()
                } else {
                    "panic".to_string()
                }
            });
            Err(msg)
        }
    }
}
