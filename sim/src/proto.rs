//! Independent codec and formula model for the RLN protocol (not built on zerokit's serialisers).
//!
//! Layouts (documented in rln/src/public.rs, re-implemented here):
//!   proving request : secret32 | index8 | limit32 | id32 | ext32 | siglen8 | signal
//!   message         : proof128 | root32 | ext32 | x32 | y32 | nullifier32
//!   verify input    : message | siglen8 | signal
//!   witness         : secret32 | limit32 | id32 | n8 | path 32*n | m8 | dirs m | x32 | ext32
//!   roots           : root32 ...

use ark_bn254::Fr;
use tiny_keccak::{Hasher, Keccak};

use crate::util::*;

pub fn h(inputs: &[Fr]) -> Fr {
    rln::hashers::poseidon_hash(inputs)
}

/// x = Keccak-256(signal) read as a little-endian integer, reduced modulo the field order.
pub fn hash_to_field(signal: &[u8]) -> Fr {
    let mut out = [0u8; 32];
    let mut k = Keccak::v256();
    k.update(signal);
    k.finalize(&mut out);
    fr_from_le(&out)
}

#[derive(Clone, Debug)]
pub struct PublicValues {
    pub root: Fr,
    pub ext: Fr,
    pub x: Fr,
    pub y: Fr,
    pub nullifier: Fr,
}

pub fn rate_commitment(secret: &Fr, limit: &Fr) -> Fr {
    h(&[h(&[*secret]), *limit])
}

/// The RLN formulas: a1 = H(s, e, m), y = s + x*a1, nullifier = H(a1).
pub fn shares(secret: &Fr, ext: &Fr, id: &Fr, x: &Fr) -> (Fr, Fr) {
    let a1 = h(&[*secret, *ext, *id]);
    (*secret + *x * a1, h(&[a1]))
}

pub fn fold_root(leaf: Fr, path: &[Fr], dirs: &[u8]) -> Fr {
    let mut cur = leaf;
    for (s, d) in path.iter().zip(dirs.iter()) {
        cur = if *d == 0 { h(&[cur, *s]) } else { h(&[*s, cur]) };
    }
    cur
}

pub fn enc_request(secret: &Fr, index: u64, limit: &Fr, id: &Fr, ext: &Fr, signal: &[u8]) -> Vec<u8> {
    let mut b = Vec::with_capacity(32 * 4 + 16 + signal.len());
    b.extend_from_slice(&fr_to_le32(secret));
    b.extend_from_slice(&index.to_le_bytes());
    b.extend_from_slice(&fr_to_le32(limit));
    b.extend_from_slice(&fr_to_le32(id));
    b.extend_from_slice(&fr_to_le32(ext));
    b.extend_from_slice(&(signal.len() as u64).to_le_bytes());
    b.extend_from_slice(signal);
    b
}

pub fn enc_witness(secret: &Fr, limit: &Fr, id: &Fr, path: &[Fr], dirs: &[u8], x: &Fr, ext: &Fr) -> Vec<u8> {
    let mut b = Vec::new();
    b.extend_from_slice(&fr_to_le32(secret));
    b.extend_from_slice(&fr_to_le32(limit));
    b.extend_from_slice(&fr_to_le32(id));
    b.extend_from_slice(&(path.len() as u64).to_le_bytes());
    for p in path {
        b.extend_from_slice(&fr_to_le32(p));
    }
    b.extend_from_slice(&(dirs.len() as u64).to_le_bytes());
    b.extend_from_slice(dirs);
    b.extend_from_slice(&fr_to_le32(x));
    b.extend_from_slice(&fr_to_le32(ext));
    b
}

pub fn enc_values(v: &PublicValues) -> Vec<u8> {
    let mut b = Vec::with_capacity(160);
    for f in [&v.root, &v.ext, &v.x, &v.y, &v.nullifier] {
        b.extend_from_slice(&fr_to_le32(f));
    }
    b
}

/// Decodes the five public values of a message (strict: exactly canonical little-endian values).
pub fn dec_values(msg: &[u8]) -> Option<PublicValues> {
    if msg.len() < 288 {
        return None;
    }
    let f = |k: usize| fr_from_le(&msg[128 + 32 * k..160 + 32 * k]);
    Some(PublicValues { root: f(0), ext: f(1), x: f(2), y: f(3), nullifier: f(4) })
}

pub fn enc_verify_input(msg: &[u8], signal: &[u8]) -> Vec<u8> {
    let mut b = Vec::with_capacity(msg.len() + 8 + signal.len());
    b.extend_from_slice(msg);
    b.extend_from_slice(&(signal.len() as u64).to_le_bytes());
    b.extend_from_slice(signal);
    b
}

pub fn enc_roots(roots: &[Fr]) -> Vec<u8> {
    let mut b = Vec::with_capacity(32 * roots.len());
    for r in roots {
        b.extend_from_slice(&fr_to_le32(r));
    }
    b
}

/// Little-endian 32 bytes of v + k*p if that still fits 256 bits.
pub fn alias_le32(v: &Fr, k: u32) -> Option<[u8; 32]> {
    let big = fr_to_biguint(v) + modulus() * k;
    let b = big.to_bytes_le();
    if b.len() > 32 {
        return None;
    }
    let mut out = [0u8; 32];
    out[..b.len()].copy_from_slice(&b);
    Some(out)
}
