//! IdealTree: the plain array of leaves the tree properties talk about.
//! Everything except the hash function itself is independent of the three backends.

use ark_bn254::Fr;
use std::collections::BTreeMap;

use crate::util::Fnv;

pub fn h2(a: Fr, b: Fr) -> Fr {
    rln::hashers::poseidon_hash(&[a, b])
}

#[derive(Clone, Copy, Debug, PartialEq, Eq)]
pub struct Flag {
    pub written: bool,
    pub removed_last: bool,
    /// last write stored the default value explicitly (indistinguishable on disk from a removal)
    pub wrote_default: bool,
}

#[derive(Clone, Debug)]
pub struct IdealTree {
    pub depth: usize,
    /// non-default leaves only
    pub leaves: BTreeMap<usize, Fr>,
    pub flags: BTreeMap<usize, Flag>,
    pub hwm: usize,
    /// default subtree hash per level: defaults[depth] = default leaf, defaults[0] = empty root
    pub defaults: Vec<Fr>,
    pub metadata: Vec<u8>,
}

impl IdealTree {
    pub fn new(depth: usize) -> Self {
        let mut defaults = vec![Fr::from(0u64); depth + 1];
        for l in (0..depth).rev() {
            defaults[l] = h2(defaults[l + 1], defaults[l + 1]);
        }
        IdealTree {
            depth,
            leaves: BTreeMap::new(),
            flags: BTreeMap::new(),
            hwm: 0,
            defaults,
            metadata: Vec::new(),
        }
    }

    pub fn cap(&self) -> usize {
        1usize << self.depth
    }

    pub fn default_leaf() -> Fr {
        Fr::from(0u64)
    }

    pub fn get(&self, i: usize) -> Fr {
        self.leaves.get(&i).copied().unwrap_or_else(Self::default_leaf)
    }

    fn put(&mut self, i: usize, v: Fr) {
        if v == Self::default_leaf() {
            self.leaves.remove(&i);
        } else {
            self.leaves.insert(i, v);
        }
    }

    /// set(i, v): valid iff i < cap.
    pub fn set(&mut self, i: usize, v: Fr) -> bool {
        if i >= self.cap() {
            return false;
        }
        self.put(i, v);
        self.flags.insert(
            i,
            Flag {
                written: true,
                removed_last: false,
                wrote_default: v == Self::default_leaf(),
            },
        );
        self.hwm = self.hwm.max(i + 1);
        true
    }

    /// delete(i): resets position i; a position at or above the high-water mark holds the default
    /// already, so that is a no-op. Never raises the high-water mark.
    pub fn delete(&mut self, i: usize) -> bool {
        if i >= self.cap() {
            return false;
        }
        if i >= self.hwm {
            return true;
        }
        self.put(i, Self::default_leaf());
        self.flags.insert(
            i,
            Flag {
                written: true,
                removed_last: true,
                wrote_default: false,
            },
        );
        true
    }

    pub fn append(&mut self, v: Fr) -> bool {
        let i = self.hwm;
        self.set(i, v)
    }

    pub fn set_range(&mut self, start: usize, vals: &[Fr]) -> bool {
        match start.checked_add(vals.len()) {
            Some(end) if end <= self.cap() => {}
            _ => return false,
        }
        for (k, v) in vals.iter().enumerate() {
            self.set(start + k, *v);
        }
        true
    }

    /// Batch: reset removed, then write. `None` = the request is not well-formed for this tree
    /// (written range beyond capacity, or nothing to do): state unchanged.
    /// A removal index at or beyond capacity makes the request one that a backend may reject or
    /// apply to the in-range part; `ambiguous` reports that.
    pub fn batch(&mut self, start: usize, vals: &[Fr], removals: &[usize]) -> BatchOutcome {
        if vals.is_empty() && removals.is_empty() {
            return BatchOutcome::Rejected;
        }
        match start.checked_add(vals.len()) {
            Some(end) if end <= self.cap() => {}
            _ => return BatchOutcome::Rejected,
        }
        let oob = removals.iter().any(|i| *i >= self.cap());
        if oob {
            return BatchOutcome::Ambiguous;
        }
        for i in removals {
            self.delete(*i);
        }
        for (k, v) in vals.iter().enumerate() {
            self.set(start + k, *v);
        }
        BatchOutcome::Applied
    }

    pub fn reset(&mut self) {
        let d = self.depth;
        let md = std::mem::take(&mut self.metadata);
        *self = IdealTree::new(d);
        // a reset replaces the tree object; metadata of the replaced object is not carried over
        drop(md);
    }

    /// Node value at `level` (0 = root, depth = leaves) covering leaf index `leaf`.
    pub fn node(&self, level: usize, leaf: usize) -> Fr {
        let idx = leaf >> (self.depth - level);
        self.node_at(level, idx)
    }

    pub fn node_at(&self, level: usize, idx: usize) -> Fr {
        let span = self.depth - level;
        let lo = idx << span;
        let hi = lo + (1usize << span);
        let items: Vec<(usize, Fr)> = self.leaves.range(lo..hi).map(|(k, v)| (*k, *v)).collect();
        self.fold(level, idx, &items)
    }

    fn fold(&self, level: usize, idx: usize, items: &[(usize, Fr)]) -> Fr {
        if items.is_empty() {
            return self.defaults[level];
        }
        if level == self.depth {
            return items[0].1;
        }
        let span = self.depth - level - 1;
        let mid = ((idx << 1) + 1) << span;
        let split = items.partition_point(|(k, _)| *k < mid);
        let l = self.fold(level + 1, idx << 1, &items[..split]);
        let r = self.fold(level + 1, (idx << 1) + 1, &items[split..]);
        h2(l, r)
    }

    pub fn root(&self) -> Fr {
        self.node_at(0, 0)
    }

    /// All node values, level by level (levels[l][idx]); only for depth <= 12.
    pub fn dense_levels(&self) -> Vec<Vec<Fr>> {
        let mut levels: Vec<Vec<Fr>> = vec![Vec::new(); self.depth + 1];
        levels[self.depth] = (0..self.cap()).map(|i| self.get(i)).collect();
        for l in (0..self.depth).rev() {
            let below = &levels[l + 1];
            let mut cur = Vec::with_capacity(below.len() / 2);
            for c in below.chunks(2) {
                cur.push(if c[0] == self.defaults[l + 1] && c[1] == self.defaults[l + 1] { self.defaults[l] } else { h2(c[0], c[1]) });
            }
            levels[l] = cur;
        }
        levels
    }

    /// Dense reference computation (self-test only; depth <= 12).
    pub fn root_dense(&self) -> Fr {
        let mut level: Vec<Fr> = (0..self.cap()).map(|i| self.get(i)).collect();
        while level.len() > 1 {
            level = level.chunks(2).map(|c| h2(c[0], c[1])).collect();
        }
        level[0]
    }

    /// (siblings bottom-up, direction bits bottom-up) for leaf i.
    pub fn path(&self, i: usize) -> (Vec<Fr>, Vec<u8>) {
        let mut sib = Vec::with_capacity(self.depth);
        let mut bits = Vec::with_capacity(self.depth);
        let mut idx = i;
        for level in (1..=self.depth).rev() {
            sib.push(self.node_at(level, idx ^ 1));
            bits.push((idx & 1) as u8);
            idx >>= 1;
        }
        (sib, bits)
    }

    /// Strict empty list: below hwm and (never written or last op was a removal).
    pub fn empties(&self) -> Vec<usize> {
        (0..self.hwm)
            .filter(|i| match self.flags.get(i) {
                None => true,
                Some(f) => !f.written || f.removed_last,
            })
            .collect()
    }

    /// Positions whose last write stored the default value explicitly.
    pub fn wrote_default_positions(&self) -> Vec<usize> {
        self.flags
            .iter()
            .filter(|(i, f)| **i < self.hwm && f.written && !f.removed_last && f.wrote_default)
            .map(|(i, _)| *i)
            .collect()
    }

    pub fn digest(&self) -> u64 {
        let mut f = Fnv::new();
        f.add_u64(self.depth as u64);
        f.add_u64(self.hwm as u64);
        for (k, v) in &self.leaves {
            f.add_u64(*k as u64);
            f.add_fr(v);
        }
        for (k, fl) in &self.flags {
            f.add_u64(*k as u64);
            f.add(&[fl.written as u8, fl.removed_last as u8]);
        }
        f.0
    }
}

#[derive(Clone, Copy, Debug, PartialEq, Eq)]
pub enum BatchOutcome {
    Applied,
    Rejected,
    Ambiguous,
}
