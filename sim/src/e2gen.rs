//! Seeded workload / fault generators for E2, one per property profile.

use ark_bn254::Fr;

use crate::e2::*;
use crate::io::{ReadPlan, WritePlan};
use crate::prng::Prng;
use crate::proto::*;
use crate::util::*;

fn gen_fr(rng: &mut Prng) -> Fr {
    match rng.weighted(&[1, 1, 1, 6]) {
        0 => Fr::from(0u64),
        1 => Fr::from(1u64),
        2 => fr_minus_one(),
        _ => fr_from_le(&rng.bytes(32)),
    }
}

fn gen_index(rng: &mut Prng) -> usize {
    match rng.weighted(&[2, 2, 2, 2, 2, 2, 6, 4]) {
        0 => 0,
        1 => 1,
        2 => CAP / 2 - 1,
        3 => CAP / 2,
        4 => CAP - 1,
        5 => CAP - 2,
        6 => rng.usize_below(CAP),
        _ => rng.usize_below(300),
    }
}

fn gen_limit(rng: &mut Prng) -> u64 {
    *rng.pick(&[1u64, 2, 3, 7, 100, 255, 256, 257, (1 << 15) - 1, 1 << 15, 65535, 65535, 65536, 65536])
}

fn gen_id(rng: &mut Prng, limit: u64) -> u64 {
    match rng.weighted(&[3, 3, 1, 2]) {
        0 => 0,
        1 => limit - 1,
        2 => (limit / 2).min(limit - 1),
        _ => rng.below(limit),
    }
}

fn gen_signal(rng: &mut Prng) -> Vec<u8> {
    let n = match rng.weighted(&[2, 2, 2, 1, 1, 1, 1, 1]) {
        0 => 0,
        1 => 1,
        2 => rng.usize_below(40),
        3 => 135,
        4 => 136,
        5 => 137,
        6 => *rng.pick(&[31usize, 32, 33, 64, 272, 273]),
        _ => 200 + rng.usize_below(2000),
    };
    rng.bytes(n)
}

fn benign_r(rng: &mut Prng) -> ReadPlan {
    if rng.chance(1, 3) { ReadPlan::benign(rng) } else { ReadPlan::clean() }
}

fn benign_w(rng: &mut Prng) -> WritePlan {
    if rng.chance(1, 3) { WritePlan::benign(rng) } else { WritePlan::clean() }
}

/// Members, a membership log that registers them among other traffic, and the node count.
fn gen_world(rng: &mut Prng, n_members: usize) -> (Vec<Member>, Vec<LogEv>, Vec<usize>) {
    let mut members: Vec<Member> = Vec::new();
    let mut used = std::collections::BTreeSet::new();
    for _ in 0..n_members {
        let mut index = gen_index(rng);
        while used.contains(&index) {
            index = rng.usize_below(CAP);
        }
        used.insert(index);
        members.push(Member { secret: gen_fr(rng), limit: Fr::from(gen_limit(rng)), index });
    }
    let mut log = Vec::new();
    let mut reg_at = vec![0usize; members.len()];
    let filler = |rng: &mut Prng, log: &mut Vec<LogEv>, used: &std::collections::BTreeSet<usize>| {
        match rng.weighted(&[4, 2, 2]) {
            0 => {
                let mut i = gen_index(rng);
                while used.contains(&i) {
                    i = rng.usize_below(CAP);
                }
                log.push(LogEv::Set { index: i, value: fr_from_le(&rng.bytes(32)) });
            }
            1 => {
                let start = *rng.pick(&[2usize, 64, CAP / 2 - 3, CAP - 9, 1000]);
                let n = 1 + rng.usize_below(6);
                if (start..start + n).all(|i| !used.contains(&i)) {
                    log.push(LogEv::Range { start, values: (0..n).map(|_| fr_from_le(&rng.bytes(32))).collect() });
                }
            }
            _ => {
                // removal of some earlier filler position (or of a never-set one)
                let cand: Vec<usize> = log
                    .iter()
                    .filter_map(|e| match e {
                        LogEv::Set { index, .. } if !used.contains(index) => Some(*index),
                        _ => None,
                    })
                    .collect();
                if let Some(i) = cand.last() {
                    log.push(LogEv::Remove { index: *i });
                }
            }
        }
    };
    for _ in 0..rng.usize_below(3) {
        filler(rng, &mut log, &used);
    }
    for (k, m) in members.iter().enumerate() {
        reg_at[k] = log.len();
        log.push(LogEv::Set { index: m.index, value: rate_commitment(&m.secret, &m.limit) });
        for _ in 0..rng.usize_below(2) {
            filler(rng, &mut log, &used);
        }
    }
    (members, log, reg_at)
}

fn limit_u64(m: &Member) -> u64 {
    let b = fr_to_le32(&m.limit);
    u64::from_le_bytes(b[..8].try_into().unwrap())
}

fn gen_ext(rng: &mut Prng) -> Fr {
    gen_fr(rng)
}

pub fn generate(prop: &str, seed: u64, thorough: bool) -> Trace {
    let mut rng = Prng::new(seed);
    match prop {
        "C01" => gen_c01(&mut rng, seed, thorough),
        "C02" => gen_c02(&mut rng, seed, thorough),
        "C03" => gen_c03(&mut rng, seed, thorough),
        "C12" => gen_c12(&mut rng, seed, thorough),
        _ => gen_c13(&mut rng, seed, thorough),
    }
}

/// C01: honest traffic over diverging / converging trees, all entry points.
fn gen_c01(rng: &mut Prng, seed: u64, thorough: bool) -> Trace {
    let nodes = 2 + rng.usize_below(2);
    let nm = 1 + rng.usize_below(2);
    let (members, mut log, _reg) = gen_world(rng, nm);
    let window = 3 + rng.usize_below(4);
    let base_len = log.len();
    // later log events (the tree moves on after publishing)
    let extra = 1 + rng.usize_below(3);
    for _ in 0..extra {
        log.push(LogEv::Set { index: 5000 + rng.usize_below(1000), value: fr_from_le(&rng.bytes(32)) });
    }
    let mut steps = Vec::new();
    // node 0 and 1 apply the whole base log through different shapes; a third node lags
    for n in 0..nodes {
        let upto = if n == 2 { base_len.saturating_sub(1 + rng.usize_below(2)) } else { base_len };
        steps.push(Step::Apply { node: n, upto, shape: rng.below(3) as u8 });
    }
    let n_pub = if thorough { 3 } else { 2 + rng.usize_below(2) };
    let mut msg = 0;
    for _ in 0..n_pub {
        let member = rng.usize_below(members.len());
        let lim = limit_u64(&members[member]);
        let node = rng.usize_below(2);
        let entry = rng.below(4) as u8;
        let (reader, writer) = (benign_r(rng), benign_w(rng));
        steps.push(Step::Publish { msg, node, member, entry, id: Fr::from(gen_id(rng, lim)), ext: gen_ext(rng), signal: gen_signal(rng), reader, writer });
        // deliveries: publisher itself, the other synchronised node, the lagging one
        for n in 0..nodes {
            for via in 0..3u8 {
                let roots = match rng.below(3) { 0 => Roots::Window, 1 => Roots::Exact, _ => Roots::Empty };
                steps.push(Step::Deliver { msg, node: n, via, alter: Alter::None, roots, reader: benign_r(rng) });
            }
        }
        // duplicate copy
        if rng.chance(1, 2) {
            steps.push(Step::Deliver { msg, node: rng.usize_below(nodes), via: 1, alter: Alter::None, roots: Roots::Window, reader: ReadPlan::clean() });
        }
        // honest traffic does not travel alone: a refused proving request on the publisher's node and a few broken deliveries
        // (garbage, a torn copy, a copy whose stream fails) at a receiver, then the same honest message once more - whatever an
        // instance keeps between calls, a failed call must not leave anything behind that makes the next honest one fail
        if rng.chance(1, 2) {
            let m = members[member].clone();
            let bad_id = m.limit;
            steps.push(Step::Prove { node, entry: rng.below(2) as u8, secret: m.secret, index: m.index as u64, limit: m.limit, id: bad_id, ext: gen_ext(rng), signal: gen_signal(rng),
                path_len: -1, dir_tweak: -1, truncate: if rng.chance(1, 2) { rng.below(150) as i64 } else { -1 }, reader: ReadPlan::clean(), writer: WritePlan::clean() });
            let victim = rng.usize_below(nodes);
            let via = rng.below(3) as u8;
            steps.push(Step::Deliver { msg, node: victim, via, alter: Alter::Raw { bytes: { let k = *rng.pick(&[0usize, 127, 288, 300]); rng.bytes(k) } }, roots: Roots::Exact, reader: ReadPlan::clean() });
            steps.push(Step::Deliver { msg, node: victim, via, alter: Alter::Truncate { len: rng.usize_below(288) }, roots: Roots::Exact, reader: ReadPlan::clean() });
            let mut failing = ReadPlan::clean();
            failing.fail_at = Some(rng.usize_below(280));
            steps.push(Step::Deliver { msg, node: victim, via, alter: Alter::None, roots: Roots::Exact, reader: failing });
            steps.push(Step::Deliver { msg, node: victim, via, alter: Alter::None, roots: Roots::Exact, reader: ReadPlan::clean() });
        }
        msg += 1;
    }
    // prove - mutate - prove again: the same member on the same node, with membership changes of every API shape
    // in between (single write, range, removal, batch removal of several low positions)
    {
        let member = rng.usize_below(members.len());
        let lim = limit_u64(&members[member]);
        let node = 0usize;
        let taken: std::collections::BTreeSet<usize> = members.iter().map(|m| m.index).collect();
        let low: Vec<usize> = (2..40usize).filter(|i| !taken.contains(i)).collect();
        let pre = log.len();
        log.push(LogEv::Range { start: 0, values: vec![] });
        log.pop();
        // fillers at low positions (so that batch removals are expressible at the byte level), then removals
        let a = low[rng.usize_below(low.len())];
        let b = low[rng.usize_below(low.len())];
        let c = low[rng.usize_below(low.len())];
        log.push(LogEv::Set { index: a, value: fr_from_le(&rng.bytes(32)) });
        log.push(LogEv::Set { index: b, value: fr_from_le(&rng.bytes(32)) });
        log.push(LogEv::Set { index: c, value: fr_from_le(&rng.bytes(32)) });
        let mid = log.len();
        match rng.below(3) {
            0 => log.push(LogEv::RemoveMany { indices: vec![a, b] }),
            1 => log.push(LogEv::RemoveMany { indices: vec![c, a, b] }),
            _ => log.push(LogEv::Remove { index: a }),
        }
        let after = log.len();
        let _ = pre;
        steps.push(Step::Apply { node, upto: mid, shape: rng.below(3) as u8 });
        steps.push(Step::Publish { msg, node, member, entry: rng.below(2) as u8, id: Fr::from(gen_id(rng, lim)), ext: gen_ext(rng), signal: gen_signal(rng), reader: ReadPlan::clean(), writer: WritePlan::clean() });
        steps.push(Step::Deliver { msg, node, via: 1, alter: Alter::None, roots: Roots::Window, reader: ReadPlan::clean() });
        msg += 1;
        steps.push(Step::Apply { node, upto: after, shape: 1 + rng.below(2) as u8 });
        steps.push(Step::Publish { msg, node, member, entry: rng.below(2) as u8, id: Fr::from(gen_id(rng, lim)), ext: gen_ext(rng), signal: gen_signal(rng), reader: ReadPlan::clean(), writer: WritePlan::clean() });
        steps.push(Step::Deliver { msg, node, via: 1, alter: Alter::None, roots: Roots::Window, reader: ReadPlan::clean() });
        steps.push(Step::Deliver { msg, node, via: 2, alter: Alter::None, roots: Roots::Exact, reader: ReadPlan::clean() });
        msg += 1;
    }
    // the tree moves on at node 0 only; old messages: rejected by verify_rln_proof, accepted via window
    // (node 0 has applied the whole log so far; one more event moves its tree on)
    log.push(LogEv::Set { index: 6000 + rng.usize_below(500), value: fr_from_le(&rng.bytes(32)) });
    let upto = log.len();
    let _ = (base_len, extra);
    steps.push(Step::Apply { node: 0, upto, shape: rng.below(3) as u8 });
    for k in 0..msg {
        steps.push(Step::Deliver { msg: k, node: 0, via: 1, alter: Alter::None, roots: Roots::Window, reader: ReadPlan::clean() });
        steps.push(Step::Deliver { msg: k, node: 0, via: 2, alter: Alter::None, roots: Roots::Window, reader: ReadPlan::clean() });
        steps.push(Step::Deliver { msg: k, node: 0, via: 2, alter: Alter::None, roots: Roots::WindowPlus, reader: ReadPlan::clean() });
    }
    // heal: everybody catches up, a fresh honest message is accepted everywhere (bounded liveness)
    for n in 0..nodes {
        steps.push(Step::Apply { node: n, upto: log.len(), shape: rng.below(3) as u8 });
    }
    let member = rng.usize_below(members.len());
    let lim = limit_u64(&members[member]);
    steps.push(Step::Publish { msg, node: nodes - 1, member, entry: rng.below(4) as u8, id: Fr::from(gen_id(rng, lim)), ext: gen_ext(rng), signal: gen_signal(rng), reader: ReadPlan::clean(), writer: WritePlan::clean() });
    for n in 0..nodes {
        steps.push(Step::Deliver { msg, node: n, via: 1, alter: Alter::None, roots: Roots::Window, reader: ReadPlan::clean() });
    }
    Trace { prop: "C01".into(), seed, nodes, window, members, log, steps }
}

fn field_of(msg_fields: &[Fr; 5], f: usize) -> Fr {
    msg_fields[f]
}

/// The alteration menu of C02 for one message, enumerated (proof bits sampled unless thorough).
pub fn c02_menu(rng: &mut Prng, thorough: bool, signal: &[u8]) -> Vec<Alter> {
    let mut menu = Vec::new();
    for f in 0..5usize {
        for (note, kind) in [("zero", 0), ("one", 1), ("plus1", 2), ("pminus1", 3), ("random", 4), ("other_msg", 5), ("hi", 6), ("mid", 7)] {
            // bytes are filled in at run time for value-dependent kinds; encode the kind in the note
            let bytes = match kind {
                0 => fr_to_le32(&Fr::from(0u64)).to_vec(),
                1 => fr_to_le32(&Fr::from(1u64)).to_vec(),
                3 => fr_to_le32(&fr_minus_one()).to_vec(),
                4 => fr_to_le32(&fr_from_le(&rng.bytes(32))).to_vec(),
                _ => Vec::new(),
            };
            menu.push(Alter::Field { f, bytes, note: note.to_string() });
        }
    }
    let nbits = if thorough { 64 } else { 10 };
    for _ in 0..nbits {
        menu.push(Alter::ProofBit { bit: rng.usize_below(1024) });
    }
    // signal alterations (declared length kept consistent)
    let mut s1 = signal.to_vec();
    if s1.is_empty() {
        s1.push(0);
    } else {
        let k = rng.usize_below(s1.len());
        s1[k] ^= 1 << rng.below(8);
    }
    menu.push(Alter::Signal { bytes: s1 });
    if signal.len() > 1 {
        // first and last byte
        let mut a = signal.to_vec();
        a[0] ^= 0x80;
        menu.push(Alter::Signal { bytes: a });
        let mut z = signal.to_vec();
        let l = z.len() - 1;
        z[l] ^= 0x01;
        menu.push(Alter::Signal { bytes: z });
    }
    let mut s2 = signal.to_vec();
    s2.push(0);
    menu.push(Alter::Signal { bytes: s2 });
    if !signal.is_empty() {
        menu.push(Alter::Signal { bytes: signal[..signal.len() - 1].to_vec() });
        menu.push(Alter::Signal { bytes: Vec::new() });
        menu.push(Alter::DeclaredLen { len: signal.len() as u64 - 1 });
        menu.push(Alter::DeclaredLen { len: 0 });
    }
    // a declared length beyond the attached bytes (the property names the declared length without a direction):
    // one more, a page more, far more than any buffer
    let sl = signal.len() as u64;
    menu.push(Alter::DeclaredLen { len: sl + 1 });
    menu.push(Alter::DeclaredLen { len: sl + 4096 });
    menu.push(Alter::DeclaredLen { len: 1 << 40 });
    menu
}

/// C02: per accepted message, the alteration menu x verification entry points x verifier states.
fn gen_c02(rng: &mut Prng, seed: u64, thorough: bool) -> Trace {
    let nodes = 2;
    let nm = 1 + rng.usize_below(2);
    let (members, mut log, _reg) = gen_world(rng, nm);
    // fillers at low positions that later events remove (single and batch removal) or overwrite
    let taken: std::collections::BTreeSet<usize> = members.iter().map(|m| m.index).collect();
    let low: Vec<usize> = (2..60usize).filter(|i| !taken.contains(i)).collect();
    let f: Vec<usize> = (0..4).map(|k| low[(rng.usize_below(low.len() / 4) * 4 + k) % low.len()]).collect();
    for i in &f {
        log.push(LogEv::Set { index: *i, value: fr_from_le(&rng.bytes(32)) });
    }
    let base_len = log.len();
    let window = 2 + rng.usize_below(3);
    // the tree moves on through every membership API shape, one event at a time (the first one is what the
    // "moved on by one" deliveries below see): removal, batch removal, range write, single write
    let mut moves = vec![
        LogEv::Remove { index: f[0] },
        LogEv::RemoveMany { indices: vec![f[1], f[2]] },
        LogEv::Range { start: 100 + rng.usize_below(50), values: vec![fr_from_le(&rng.bytes(32)), fr_from_le(&rng.bytes(32))] },
        LogEv::Set { index: 7000 + rng.usize_below(1000), value: fr_from_le(&rng.bytes(32)) },
    ];
    let k = rng.usize_below(moves.len());
    moves.swap(0, k);
    log.extend(moves);
    // enough later events to push a root out of the window
    for _ in 0..(window + 2) {
        log.push(LogEv::Set { index: 7000 + rng.usize_below(1000), value: fr_from_le(&rng.bytes(32)) });
    }
    let mut steps = vec![
        Step::Apply { node: 0, upto: base_len, shape: rng.below(3) as u8 },
        Step::Apply { node: 1, upto: base_len.saturating_sub(1), shape: rng.below(3) as u8 }, // never had the root
    ];
    let n_pub = 1 + rng.usize_below(2);
    for msg in 0..n_pub {
        let member = rng.usize_below(members.len());
        let lim = limit_u64(&members[member]);
        let signal = gen_signal(rng);
        steps.push(Step::Publish { msg, node: 0, member, entry: rng.below(4) as u8, id: Fr::from(gen_id(rng, lim)), ext: gen_ext(rng), signal: signal.clone(), reader: ReadPlan::clean(), writer: WritePlan::clean() });
        // the honest copy first (makes the run non-trivial and anchors "accepted message")
        steps.push(Step::Deliver { msg, node: 0, via: 1, alter: Alter::None, roots: Roots::Window, reader: ReadPlan::clean() });
        for a in c02_menu(rng, thorough, &signal) {
            for via in 0..3u8 {
                let roots = match rng.below(3) { 0 => Roots::Window, 1 => Roots::Exact, _ => Roots::Empty };
                steps.push(Step::Deliver { msg, node: 0, via, alter: a.clone(), roots, reader: ReadPlan::clean() });
            }
        }
        // non-empty root sets without the message's root whose entries are not canonical field encodings
        let p_le = { let mut b = [0u8; 32]; let m = modulus().to_bytes_le(); b[..m.len()].copy_from_slice(&m); b.to_vec() };
        let mut big = rng.bytes(32);
        big[31] |= 0xc0;
        for raw in [vec![0xffu8; 32], vec![0xffu8; 64], p_le.clone(), big.clone(), [p_le.clone(), vec![0xffu8; 32]].concat()] {
            steps.push(Step::Deliver { msg, node: 0, via: 2, alter: Alter::None, roots: Roots::Raw(raw), reader: ReadPlan::clean() });
        }
        // near misses of the root in an otherwise well-formed set: straddling two entries, one bit off at either end, reversed
        for roots in [Roots::Near { kind: 0, at: 16 }, Roots::Near { kind: 0, at: 1 + rng.usize_below(31) }, Roots::Near { kind: 1, at: 31 }, Roots::Near { kind: 1, at: 0 },
                      Roots::Near { kind: 1, at: rng.usize_below(32) }, Roots::Near { kind: 2, at: 0 }] {
            steps.push(Step::Deliver { msg, node: 0, via: 2, alter: Alter::None, roots, reader: ReadPlan::clean() });
        }
        // the root set (without the message's root) arrives through a reader that fails part-way
        for fail_at in [0usize, 1, 31, 32, 33, 64, 95] {
            if rng.chance(1, 2) {
                steps.push(Step::Deliver { msg, node: 0, via: 2, alter: Alter::None, roots: Roots::WithoutFailing { fail_at }, reader: ReadPlan::clean() });
            }
        }
        // verifier states: a node that never had the root
        for (via, roots) in [(1u8, Roots::Window), (2, Roots::Window), (2, Roots::Without), (2, Roots::WindowPlus)] {
            steps.push(Step::Deliver { msg, node: 1, via, alter: Alter::None, roots, reader: ReadPlan::clean() });
        }
    }
    // tree moves on by one: verify_rln_proof must stop accepting, the window still accepts
    steps.push(Step::Apply { node: 0, upto: base_len + 1, shape: rng.below(3) as u8 });
    for msg in 0..n_pub {
        steps.push(Step::Deliver { msg, node: 0, via: 1, alter: Alter::None, roots: Roots::Window, reader: ReadPlan::clean() });
        steps.push(Step::Deliver { msg, node: 0, via: 2, alter: Alter::None, roots: Roots::Window, reader: ReadPlan::clean() });
    }
    // ... and far enough to leave the window
    steps.push(Step::Apply { node: 0, upto: log.len(), shape: rng.below(3) as u8 });
    for msg in 0..n_pub {
        steps.push(Step::Deliver { msg, node: 0, via: 1, alter: Alter::None, roots: Roots::Window, reader: ReadPlan::clean() });
        steps.push(Step::Deliver { msg, node: 0, via: 2, alter: Alter::None, roots: Roots::Window, reader: ReadPlan::clean() });
        steps.push(Step::Deliver { msg, node: 0, via: 2, alter: Alter::None, roots: Roots::Without, reader: ReadPlan::clean() });
        steps.push(Step::Deliver { msg, node: 0, via: 2, alter: Alter::None, roots: Roots::Empty, reader: ReadPlan::clean() });
    }
    Trace { prop: "C02".into(), seed, nodes, window, members, log, steps }
}

/// C03: double-signalling publishers, duplicates, epoch / id variation, synthetic boundary pairs.
fn gen_c03(rng: &mut Prng, seed: u64, _thorough: bool) -> Trace {
    let nodes = 2;
    let nm = 1 + rng.usize_below(2);
    let (members, log, _reg) = gen_world(rng, nm);
    let mut steps = vec![
        Step::Apply { node: 0, upto: log.len(), shape: rng.below(3) as u8 },
        Step::Apply { node: 1, upto: log.len(), shape: rng.below(3) as u8 },
    ];
    let member = rng.usize_below(members.len());
    let lim = limit_u64(&members[member]);
    let ext = gen_ext(rng);
    let id = gen_id(rng, lim);
    let mut msg = 0;
    // two messages in the same slot, different signals
    for _ in 0..2 {
        steps.push(Step::Publish { msg, node: rng.usize_below(2), member, entry: rng.below(4) as u8, id: Fr::from(id), ext, signal: { let mut s = gen_signal(rng); s.push(msg as u8); s }, reader: ReadPlan::clean(), writer: WritePlan::clean() });
        msg += 1;
    }
    // a third one: other epoch, or other id when the limit allows
    let other_id = if lim > 1 && rng.chance(1, 2) { Some((id + 1) % lim) } else { None };
    match other_id {
        Some(oid) => steps.push(Step::Publish { msg, node: 0, member, entry: rng.below(4) as u8, id: Fr::from(oid), ext, signal: gen_signal(rng), reader: ReadPlan::clean(), writer: WritePlan::clean() }),
        None => steps.push(Step::Publish { msg, node: 0, member, entry: rng.below(4) as u8, id: Fr::from(id), ext: ext + Fr::from(1u64), signal: gen_signal(rng), reader: ReadPlan::clean(), writer: WritePlan::clean() }),
    }
    msg += 1;
    for (a, b) in [(0usize, 1usize), (1, 0), (0, 2), (2, 1), (0, 0), (1, 1)] {
        // (k, k): the transport duplicated one message -> identical shares
        steps.push(Step::Recover { a, b, node: rng.usize_below(2), alter_a: Alter::None, alter_b: Alter::None });
    }
    let _ = msg;
    // synthetic boundary pairs (recover_id_secret reads only the public values)
    let n_synth = 40;
    for _ in 0..n_synth {
        let secret = gen_fr(rng);
        let mut ext1 = gen_fr(rng);
        let same_ext = rng.chance(3, 4);
        let ext2 = if same_ext {
            ext1
        } else if rng.chance(1, 2) {
            ext1 + Fr::from(1u64 + rng.below(5))
        } else {
            // two external nullifiers whose encodings differ in exactly one byte, at either end or in the middle
            let mut b = rng.bytes(32);
            b[31] &= 0x1f;
            ext1 = fr_from_le(&b);
            let k = *rng.pick(&[31usize, 31, 30, 16, 15, 1, 0]);
            b[k] ^= 1 << rng.below(5);
            fr_from_le(&b)
        };
        let x1 = gen_fr(rng);
        let x2 = match rng.weighted(&[5, 2, 1]) {
            0 => gen_fr(rng),
            1 => x1,
            _ => x1 + Fr::from(1u64),
        };
        let y2_delta = if x1 == x2 && rng.chance(1, 2) { Fr::from(1u64 + rng.below(9)) } else { Fr::from(0u64) };
        steps.push(Step::RecoverSynth { secret, ext1, ext2, id: Fr::from(rng.below(70000)), x1, x2, y2_delta, node: rng.usize_below(2) });
    }
    Trace { prop: "C03".into(), seed, nodes, window: 4, members, log, steps }
}

/// C12: arbitrary proving requests, valid and malformed, with stream faults.
fn gen_c12(rng: &mut Prng, seed: u64, thorough: bool) -> Trace {
    let nodes = 1;
    // limits beyond the circuit's 16 bit range are part of the request domain
    let (mut members, mut log, _reg) = gen_world(rng, 2);
    let big = Member { secret: gen_fr(rng), limit: Fr::from(*rng.pick(&[65537u64, 70000, 1 << 20, u64::MAX])), index: 4242 + rng.usize_below(100) };
    log.push(LogEv::Set { index: big.index, value: rate_commitment(&big.secret, &big.limit) });
    members.push(big);
    let mut steps = vec![Step::Apply { node: 0, upto: log.len(), shape: rng.below(3) as u8 }];
    let n_req = if thorough { 14 } else { 9 };
    for _ in 0..n_req {
        let member = rng.usize_below(members.len());
        let m = members[member].clone();
        let lim = limit_u64(&m);
        let entry = rng.below(4) as u8;
        let mut secret = m.secret;
        let mut index = m.index as u64;
        let mut limit = m.limit;
        let mut id = Fr::from(if lim <= 65536 { gen_id(rng, lim) } else { rng.below(65536) });
        let ext = gen_ext(rng);
        let signal = gen_signal(rng);
        let (mut path_len, mut dir_tweak, mut truncate) = (-1i64, -1i64, -1i64);
        let (mut reader, mut writer) = (ReadPlan::clean(), WritePlan::clean());
        match rng.weighted(&[4, 3, 2, 2, 2, 2, 2, 2, 2, 1]) {
            0 => {}                                                    // valid
            1 => id = limit,                                           // id == limit
            2 => id = limit + Fr::from(1u64 + rng.below(3)),           // id > limit
            3 => {
                // id outside the 16 bit range (limit may or may not be)
                id = match rng.below(3) { 0 => Fr::from(65536u64), 1 => Fr::from(65537u64 + rng.below(1000)), _ => fr_minus_one() };
            }
            4 => index = *rng.pick(&[CAP as u64, CAP as u64 + 1, 1 << 32, u64::MAX]), // outside the tree
            5 => {
                if entry == 0 { path_len = -1; } else { path_len = *rng.pick(&[0i64, 1, 19, 21, 32, 119, 121, 100, 101, 219, 221, 200, 201]); }
            }
            6 => {
                if entry != 0 {
                    if (entry == 1 || entry == 3) && rng.chance(1, 2) {
                        // witness bytes with a lying element count or cut short (see Step::Prove execution: dir_tweak <= -2)
                        dir_tweak = -2 - rng.below(22) as i64;
                    } else {
                        dir_tweak = rng.below(200) as i64;
                    }
                }
            }
            7 => {
                if entry <= 1 {
                    let full = 32 * 4 + 16 + signal.len();
                    truncate = rng.usize_below(full) as i64;
                }
            }
            8 => {
                match rng.below(3) {
                    0 => reader.fail_at = Some(rng.usize_below(180)),
                    1 => writer.fail_at = Some(rng.usize_below(280)),
                    // a declared signal length larger than what follows (see Step::Prove execution: truncate <= -2)
                    _ => if entry <= 1 { truncate = -2 - rng.below(13) as i64; },
                }
            }
            _ => {
                // a request for a leaf that is not this identity's commitment
                secret = secret + Fr::from(1u64);
                limit = m.limit;
            }
        }
        if rng.chance(1, 4) {
            reader.chunk = *rng.pick(&[1usize, 7, 33]);
        }
        // benign stream behaviour (short reads and writes, interruptions) on otherwise untouched plans
        if reader.fail_at.is_none() && rng.chance(1, 4) {
            reader = ReadPlan::benign(rng);
        }
        if writer.fail_at.is_none() && rng.chance(1, 3) {
            writer = WritePlan::benign(rng);
        }
        steps.push(Step::Prove { node: 0, entry, secret, index, limit, id, ext, signal, path_len, dir_tweak, truncate, reader, writer });
    }
    // the tree moves between requests (every membership API shape, batch removals included): a request served from the
    // tree must follow it - prove, mutate, prove again for the same member
    {
        let taken: std::collections::BTreeSet<usize> = members.iter().map(|m| m.index).collect();
        let low: Vec<usize> = (2..40usize).filter(|i| !taken.contains(i)).collect();
        let (a, b, c) = (low[rng.usize_below(low.len())], low[rng.usize_below(low.len())], low[rng.usize_below(low.len())]);
        for i in [a, b, c] {
            log.push(LogEv::Set { index: i, value: fr_from_le(&rng.bytes(32)) });
        }
        let filled = log.len();
        steps.push(Step::Apply { node: 0, upto: filled, shape: rng.below(3) as u8 });
        let moves: Vec<LogEv> = vec![
            LogEv::RemoveMany { indices: vec![a, b] },
            LogEv::Set { index: a, value: fr_from_le(&rng.bytes(32)) },
            LogEv::Remove { index: c },
            LogEv::Range { start: 40 + rng.usize_below(20), values: (0..(1 + rng.usize_below(3))).map(|_| fr_from_le(&rng.bytes(32))).collect() },
            LogEv::RemoveMany { indices: vec![c, a, b] },
        ];
        let m_idx = rng.usize_below(2);
        let m = members[m_idx].clone();
        let lim = limit_u64(&m);
        let mk = |rng: &mut Prng| Step::Prove {
            node: 0, entry: rng.below(2) as u8, secret: m.secret, index: m.index as u64, limit: m.limit, id: Fr::from(gen_id(rng, lim)), ext: gen_ext(rng),
            signal: gen_signal(rng), path_len: -1, dir_tweak: -1, truncate: -1, reader: ReadPlan::clean(), writer: WritePlan::clean(),
        };
        steps.push(mk(rng));
        let n_moves = 1 + rng.usize_below(3);
        let first = rng.usize_below(moves.len());
        for k in 0..n_moves {
            log.push(moves[(first + k) % moves.len()].clone());
            steps.push(Step::Apply { node: 0, upto: log.len(), shape: 1 + rng.below(2) as u8 });
            steps.push(mk(rng));
        }
    }
    // a prover whose tree depth is not the circuit's (configuration mismatch): must be refused
    if rng.chance(1, 2) {
        let m = members[0].clone();
        let lim = limit_u64(&m);
        let depth = *rng.pick(&[1usize, 2, 10, 19, 21, 20]);
        let at = rng.usize_below(steps.len()) + 1;
        steps.insert(at, Step::ProveAlt { depth, secret: m.secret, index: rng.below(1 << 20), limit: m.limit, id: Fr::from(gen_id(rng, lim)), ext: gen_ext(rng), signal: gen_signal(rng) });
    }
    Trace { prop: "C12".into(), seed, nodes, window: 4, members, log, steps }
}

/// C13: one accepted message, then every truncation length, length-field values, field garbage and
/// v + k*p aliases at every verification / recovery entry point.
fn gen_c13(rng: &mut Prng, seed: u64, thorough: bool) -> Trace {
    let nodes = 1;
    let (members, log, _reg) = gen_world(rng, 1);
    let mut steps = vec![Step::Apply { node: 0, upto: log.len(), shape: rng.below(3) as u8 }];
    let lim = limit_u64(&members[0]);
    let signal = { let n = rng.usize_below(24); rng.bytes(n) };
    let mk = |rng: &mut Prng, msg: usize, signal: Vec<u8>, ext: Fr, id: u64| Step::Publish {
        msg, node: 0, member: 0, entry: rng.below(4) as u8, id: Fr::from(id), ext, signal, reader: ReadPlan::clean(), writer: WritePlan::clean(),
    };
    let ext = gen_ext(rng);
    let id = gen_id(rng, lim);
    steps.push(mk(rng, 0, signal.clone(), ext, id));
    steps.push(Step::Deliver { msg: 0, node: 0, via: 1, alter: Alter::None, roots: Roots::Window, reader: ReadPlan::clean() });
    let full = 288 + 8 + signal.len();
    // every truncation length (thorough) or a stride plus all boundaries (quick)
    let mut lens: Vec<usize> = if thorough { (0..full).collect() } else {
        let mut v: Vec<usize> = vec![0, 1, 31, 32, 127, 128, 129, 159, 160, 191, 192, 223, 224, 255, 256, 287, 288, 289, 295, 296];
        for _ in 0..24 { v.push(rng.usize_below(full)); }
        v.push(full - 1);
        v
    };
    lens.sort();
    lens.dedup();
    for len in lens.iter().copied().filter(|l| *l < full) {
        for via in 0..3u8 {
            if via == 0 && len >= 288 { continue; }
            steps.push(Step::Deliver { msg: 0, node: 0, via, alter: Alter::Truncate { len }, roots: Roots::Exact, reader: ReadPlan::clean() });
        }
        steps.push(Step::Recover { a: 0, b: 0, node: 0, alter_a: Alter::Truncate { len }, alter_b: Alter::None });
        steps.push(Step::Recover { a: 0, b: 0, node: 0, alter_a: Alter::None, alter_b: Alter::Truncate { len } });
    }
    // declared signal length
    let sl = signal.len() as u64;
    for len in [sl + 1, sl + 2, 1 << 16, 1 << 32, 1 << 63, u64::MAX, u64::MAX - 7, (1 << 63) - 1] {
        for via in 1..3u8 {
            steps.push(Step::Deliver { msg: 0, node: 0, via, alter: Alter::DeclaredLen { len }, roots: Roots::Exact, reader: ReadPlan::clean() });
        }
    }
    // garbage
    for _ in 0..12 {
        let n = *rng.pick(&[0usize, 1, 127, 128, 288, 296, 300, 500]);
        let bytes = rng.bytes(n);
        for via in 0..3u8 {
            steps.push(Step::Deliver { msg: 0, node: 0, via, alter: Alter::Raw { bytes: bytes.clone() }, roots: Roots::Exact, reader: ReadPlan::clean() });
        }
        steps.push(Step::Recover { a: 0, b: 0, node: 0, alter_a: Alter::Raw { bytes: bytes.clone() }, alter_b: Alter::Raw { bytes: rng.bytes(n) } });
    }
    // the 128 proof bytes with special contents (all zero, all ones, the flag bits of the compressed point encoding) in front of
    // well-formed public values
    for fill in [0x00u8, 0xff, 0x40, 0x80, 0xc0] {
        let mut bytes = vec![fill; 128];
        if fill == 0x40 || fill == 0x80 || fill == 0xc0 {
            // flags live in the last byte of each encoded coordinate; everything else zero
            bytes = vec![0u8; 128];
            for k in [31usize, 95, 127] {
                bytes[k] = fill;
            }
        }
        for _ in 0..5 {
            bytes.extend_from_slice(&fr_to_le32(&fr_from_le(&rng.bytes(32))));
        }
        let mut with_signal = bytes.clone();
        with_signal.extend_from_slice(&0u64.to_le_bytes());
        for via in 0..3u8 {
            let b = if via == 0 { bytes.clone() } else { with_signal.clone() };
            steps.push(Step::Deliver { msg: 0, node: 0, via, alter: Alter::Raw { bytes: b }, roots: Roots::Exact, reader: ReadPlan::clean() });
        }
        steps.push(Step::Recover { a: 0, b: 0, node: 0, alter_a: Alter::Raw { bytes: with_signal.clone() }, alter_b: Alter::None });
    }
    // all-0xff fields (values >= p) and random non-canonical fields
    for f in 0..5usize {
        steps.push(Step::Deliver { msg: 0, node: 0, via: rng.below(3) as u8, alter: Alter::Field { f, bytes: vec![0xff; 32], note: "ff".into() }, roots: Roots::Exact, reader: ReadPlan::clean() });
    }
    // secret recovery from a message and a copy with one public value changed (same x and a different y among them: two
    // shares that define no line), through every value-dependent and constant replacement
    for f in 0..5usize {
        for (bytes, note) in [(Vec::new(), "plus1".to_string()), (Vec::new(), "hi".to_string()), (Vec::new(), "alias:1".to_string()), (vec![0u8; 32], "zero".to_string()),
                              (vec![0xffu8; 32], "ff".to_string()), (fr_to_le32(&gen_fr(rng)).to_vec(), "random".to_string())] {
            let alt = Alter::Field { f, bytes, note };
            if rng.chance(1, 2) {
                steps.push(Step::Recover { a: 0, b: 0, node: 0, alter_a: Alter::None, alter_b: alt });
            } else {
                steps.push(Step::Recover { a: 0, b: 0, node: 0, alter_a: alt, alter_b: Alter::None });
            }
        }
    }
    // malformed root sets
    for raw in [vec![0u8; 1], vec![0xffu8; 31], vec![0xffu8; 33], rng.bytes(64), rng.bytes(95)] {
        steps.push(Step::Deliver { msg: 0, node: 0, via: 2, alter: Alter::None, roots: Roots::Raw(raw), reader: ReadPlan::clean() });
    }
    // v + k*p aliases of each public value (filled in at run time from the message: note "alias:k")
    for f in 0..5usize {
        for k in 1..=5u32 {
            for via in 0..3u8 {
                steps.push(Step::Deliver { msg: 0, node: 0, via, alter: Alter::Field { f, bytes: Vec::new(), note: format!("alias:{k}") }, roots: Roots::Exact, reader: ReadPlan::clean() });
            }
        }
    }
    // stream failure in the middle of an honest message
    for _ in 0..4 {
        let mut r = ReadPlan::clean();
        r.fail_at = Some(rng.usize_below(full));
        steps.push(Step::Deliver { msg: 0, node: 0, via: rng.below(3) as u8, alter: Alter::None, roots: Roots::Exact, reader: r });
    }
    Trace { prop: "C13".into(), seed, nodes, window: 4, members, log, steps }
}

/// Resolves value-dependent alterations ("plus1", "other_msg", "alias:k") against the actual
/// message bytes. Returns None when the alteration does not apply (alias does not fit 256 bits).
pub fn resolve_alter(a: &Alter, msg: &[u8], other: Option<&[u8]>) -> Option<Alter> {
    match a {
        Alter::Field { f, bytes, note } if bytes.is_empty() => {
            let pv = dec_values(msg)?;
            let fields = [pv.root, pv.ext, pv.x, pv.y, pv.nullifier];
            let cur = field_of(&fields, *f);
            if note == "plus1" {
                Some(Alter::Field { f: *f, bytes: fr_to_le32(&(cur + Fr::from(1u64))).to_vec(), note: note.clone() })
            } else if note == "hi" || note == "mid" {
                // the value whose encoding differs from the original in one bit of the most significant byte (or of byte 16),
                // taken the way that stays below the field order: what a comparison that skips a byte would let through
                let mut b = fr_to_le32(&cur);
                let k = if note == "hi" { 31 } else { 16 };
                b[k] ^= 1;
                if fr_to_le32(&fr_from_le(&b)) != b {
                    b[k] ^= 1;
                    b[k] ^= 2;
                    if fr_to_le32(&fr_from_le(&b)) != b {
                        return None;
                    }
                }
                Some(Alter::Field { f: *f, bytes: b.to_vec(), note: note.clone() })
            } else if note == "other_msg" {
                let o = other?;
                let po = dec_values(o)?;
                let of = [po.root, po.ext, po.x, po.y, po.nullifier][*f];
                Some(Alter::Field { f: *f, bytes: fr_to_le32(&of).to_vec(), note: note.clone() })
            } else if let Some(k) = note.strip_prefix("alias:") {
                let k: u32 = k.parse().ok()?;
                let b = alias_le32(&cur, k)?;
                Some(Alter::Field { f: *f, bytes: b.to_vec(), note: note.clone() })
            } else {
                None
            }
        }
        other => Some(other.clone()),
    }
}
