#!/usr/bin/env python3
"""Cross-process transcript comparison (C18 pool sizes, C14 placements).

  transcripts.py compare <prop> <seed> <pool sizes, comma separated> [--repeat N]
exit 0: all transcripts equal and every invariant line holds; exit 1: difference / broken invariant
(the differing lines are printed); exit 2: a worker failed.
"""
import json, os, subprocess, sys, tempfile

VERIF = os.path.dirname(os.path.dirname(os.path.abspath(__file__)))
BIN = os.path.join(os.environ.get("ZKSIM_BUILD_DIR") or os.path.join(VERIF, "build"), "bin", "simworker-default")

IDENTITY_PREFIXES = ("pinned_seed", "seeded_reference", "seeded_keygen", "seeded_ext_keygen", "unseeded_", "seeded_distinct")


def run(seed, pool, tmp, k):
    out = os.path.join(tmp, f"t-{pool}-{k}.json")
    env = dict(os.environ)
    env["RAYON_NUM_THREADS"] = str(pool)
    env["TMPDIR"] = tmp
    p = subprocess.run([BIN, "transcript", "--seed", str(seed), "--out", out], env=env, stdout=subprocess.DEVNULL, stderr=subprocess.PIPE, text=True)
    if p.returncode != 0 or not os.path.exists(out):
        return None, p.stderr[-500:]
    return json.load(open(out)), ""


def invariants(prop, t):
    bad = []
    for k, v in t:
        if k == "PANIC":
            bad.append(f"worker panicked: {v}")
        if prop == "C14" or prop == "C18":
            if k.startswith("pinned_seed") and "match=true" not in v:
                if prop == "C14":
                    bad.append(f"{k}: documented reference identity not reproduced: {v}")
            if k.startswith("seeded_reference") and "matches_reference=true" not in v and prop == "C14":
                bad.append(f"{k}: seeded identity differs from the documented derivation ChaCha20(Keccak-256(seed))")
            if k.startswith(("seeded_keygen", "seeded_ext_keygen")):
                if "same_across_entry_points=true" not in v and prop == "C14":
                    bad.append(f"{k}: protocol::, RLN:: and ffi:: entry points disagree")
                if "relations=true" not in v and prop == "C14":
                    bad.append(f"{k}: identity relations violated")
            if k.startswith("unseeded_") and k not in ("unseeded_distinct",) and "relations=true" not in v and prop == "C14":
                bad.append(f"{k}: identity relations violated")
            if k in ("unseeded_distinct", "seeded_distinct") and v != "true" and prop == "C14":
                bad.append(f"{k}: identities collide")
        if prop == "C18":
            if k == "verdicts" and v != "Some(true) Some(true) Some(false)":
                bad.append(f"verdicts: {v}")
            if k.endswith("equals ideal") and v != "true":
                bad.append(f"{k}: {v}")
    return bad


def compare(prop, seed, pools, repeat):
    tmp = tempfile.mkdtemp(prefix="zktr-")
    ts = []
    try:
        for pool in pools:
            for k in range(repeat):
                t, err = run(seed, pool, tmp, k)
                if t is None:
                    print(f"worker failed (pool {pool}): {err}")
                    return 2, None
                ts.append((pool, k, t["transcript"]))
    finally:
        subprocess.run(["rm", "-rf", tmp])
    ref = ts[0][2]
    sel = (lambda k: k.startswith(IDENTITY_PREFIXES)) if prop == "C14" else (lambda k: True)
    rc = 0
    bad = invariants(prop, ref)
    for b in bad:
        print("INVARIANT", b)
        rc = 1
    for pool, k, t in ts[1:]:
        a = [(x, y) for x, y in ref if sel(x)]
        b = [(x, y) for x, y in t if sel(x)]
        if a != b:
            rc = 1
            for (ka, va), (kb, vb) in zip(a, b):
                if (ka, va) != (kb, vb):
                    print(f"DIFF pool {ts[0][0]} vs pool {pool} run {k}: {ka}: {va[:80]} != {vb[:80]}")
    return rc, {"lines": len(ref), "processes": len(ts), "sample": ref[:3] + ref[-6:]}


if __name__ == "__main__":
    a = sys.argv[1:]
    if len(a) < 4 or a[0] != "compare":
        print(__doc__)
        sys.exit(2)
    repeat = 1
    if "--repeat" in a:
        repeat = int(a[a.index("--repeat") + 1])
    rc, _ = compare(a[1], int(a[2]), [int(x) for x in a[3].split(",")], repeat)
    sys.exit(rc)
