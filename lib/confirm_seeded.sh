#!/bin/bash
# Development aid: confirm a property-breaking change delivered by a sub-agent in its scratch worktree and file it under
# /verif/seeded/<id>/.  usage: confirm_seeded.sh <worktree> <id> <property>
# Expects <worktree>/_out/{patch.diff,demo.rs,how_to_run.txt,summary.json}. Confirms, in that worktree:
#   demonstration fails with the patch, passes without it, the whole suite passes with the patch (apart from the demonstration).
# Never touches /repo's working tree. Exit 0 = confirmed and filed, 1 = not confirmed.
set -u
wt=$1; id=$2; prop=$3
out=$wt/_out
for f in patch.diff demo.rs summary.json; do [ -s $out/$f ] || { echo "missing $out/$f"; exit 1; }; done
demo_path=$(jq -r .demo_path $out/summary.json)
demo_cmd=$(jq -r .demo_cmd $out/summary.json)
cd $wt || exit 1
# clean state: unpatched sources + demo in place
git checkout -q -- . ; git clean -fdq -e target -e _out
git apply --check $out/patch.diff || { echo "patch does not apply to HEAD"; exit 1; }
mkdir -p $(dirname $demo_path); cp $out/demo.rs $demo_path
export CARGO_NET_OFFLINE=true
echo "== demo without patch"; ( eval "$demo_cmd" ) > $out/demo_without.log 2>&1; rc_without=$?
git apply $out/patch.diff
echo "== demo with patch"; ( eval "$demo_cmd" ) > $out/demo_with.log 2>&1; rc_with=$?
echo "== suite with patch"; cargo test --workspace --no-fail-fast --offline > $out/suite_with.log 2>&1
passed=$(grep -E '^test result:' $out/suite_with.log | sed -E 's/.* ([0-9]+) passed.*/\1/' | paste -sd+ | bc)
failed=$(grep -E '^test result:' $out/suite_with.log | sed -E 's/.* ([0-9]+) failed.*/\1/' | paste -sd+ | bc)
failing=$(grep -E '^test .* FAILED$' $out/suite_with.log | awk '{print $2}' | sort -u | paste -sd' ')
demo_name=$(basename $demo_path .rs)
other_fail=$(grep -E '^test .* FAILED$' $out/suite_with.log | awk '{print $2}' | sort -u | grep -v -E 'test_leaf_setting_with_index_ffi' | while read t; do grep -q "fn ${t##*::}" $demo_path || echo $t; done | paste -sd' ')
compile_err=$(grep -c -E 'could not compile|^error\[E' $out/suite_with.log)
echo "$prop: demo=$demo_path with_patch_rc=$rc_with without_patch_rc=$rc_without" | tee $out/confirmation.txt
echo "$prop: suite: $passed passed, $failed failed  failing tests: $failing  (not from the demonstration: '${other_fail}')  compile errors: $compile_err" | tee -a $out/confirmation.txt
if [ $rc_without -ne 0 ] || [ $rc_with -eq 0 ] || [ -n "$other_fail" ] || [ "$compile_err" != 0 ]; then echo "NOT CONFIRMED"; exit 1; fi
d=/verif/seeded/$id; mkdir -p $d
cp $out/patch.diff $out/confirmation.txt $d/; cp $out/demo.rs $d/demo.rs; cp $out/how_to_run.txt $d/ 2>/dev/null
jq --arg id "$id" --arg prop "$prop" --rawfile conf $out/confirmation.txt '. + {property:$prop, id:$id, origin:"independent sub-agent, round 10 (saw the property record, a scratch worktree, short descriptions of the earlier changes to avoid, ideas of where to look, and a request for a subtle trigger)", expected_checks:[$prop], confirmed_by_me:{how:"lib/confirm_seeded.sh in the sub-agent scratch worktree (git apply of patch.diff on a clean HEAD): demonstration without the patch, demonstration with the patch, cargo test --workspace --no-fail-fast --offline with the patch", result:($conf|split("\n")|map(select(length>0)))}}' $out/summary.json > $d/meta.json
echo "CONFIRMED -> $d"
