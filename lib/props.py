"""Per-property check plans: which worker builds run which engine over which seed ranges."""

SETUP_VARIANTS = ["default", "nodefault"]

REAL_TREE = [
    "zerokit_utils FullMerkleTree / OptimalMerkleTree (from /repo working tree)",
    "rln::pm_tree_adapter::PmTree + vacp2p_pmtree 2.0.2 + sled 0.34.7 on real files in a per-run scratch directory",
    "rln::public::RLN tree methods through their Read/Write arguments (default build: persistent tree; --no-default-features build: Optimal tree)",
    "rln::hashers::poseidon_hash (also used, trusted, by the reference model)",
]
STUB_TREE = [
    "request/response streams (SimReader/SimWriter: chunked, Interrupted, hard error at byte k)",
    "the caller: one seeded history issued to all backends in lock step",
]
ASSUME_TREE = [
    "Poseidon hash itself is trusted (the model hashes with zerokit's poseidon_hash; its conformance is C09, not claimed)",
    "sampling, not enumeration, of histories; depth <= 6 checks every position, depth 10/20 a boundary set",
    "steps matching an open known finding are not issued to the affected backend (counted in substituted_steps_due_to_known_findings)",
]


def split_jobs(engine, prop, seed, total, procs, threads, variant, known, tier, extra=None, rayons=(1, 2, 4, 2), base=0):
    jobs = []
    procs = max(1, min(procs, total))
    per = max(1, total // procs)
    for k in range(procs):
        lo = base + k * per
        hi = base + (k + 1) * per if k < procs - 1 else base + total
        args = ["batch", "--engine", engine, "--prop", prop, "--seed", str(seed), "--from", str(lo), "--to", str(hi),
                "--threads", str(threads), "--tier", tier]
        if known:
            args += ["--known", ",".join(known)]
        if extra:
            args += extra
        jobs.append({"variant": variant, "args": args, "rayon": rayons[k % len(rayons)]})
    return jobs


def tree_plan(prop, level, rule, n_quick, n_thorough, nd_frac=4):
    def plan(tier, seed, known):
        n = n_thorough if tier == "thorough" else n_quick
        # --big: one run in forty uses the large-batch profile (depth 11-12, range/batch writes of 300-3000 leaves)
        jobs = split_jobs("e1", prop, seed, n, 3, 4, "default", known, tier, extra=["--big"])
        jobs += split_jobs("e1", prop, seed, max(50, n // nd_frac), 1, 4, "nodefault", known, tier, extra=["--big"], base=10_000_000)
        return {
            "jobs": jobs,
            "level": level,
            "rule": rule,
            "real": REAL_TREE,
            "stub": STUB_TREE,
            "assumptions": ASSUME_TREE,
            "timeout_s": 1800 if tier == "thorough" else 900,
        }
    return plan


RULE_TREE = ("one evaluation = one seeded history (3..40 steps quick, ..60 thorough; swarm-chosen depth, op mix, fault kinds, "
             "sled configuration) executed on every backend in lock step and compared with the ideal tree after every step; "
             "non-trivial = the history changed the model state at least once and at least one full oracle evaluation passed; "
             "distinct = distinct digest of the generated trace")

PLANS = {
    "C06": tree_plan("C06", "exploration", RULE_TREE, 1500, 8000),
    "C07": tree_plan("C07", "exploration", RULE_TREE + "; per probed position every single-field proof alteration in the menu is enumerated", 500, 2500),
    "C08": tree_plan("C08", "exploration", RULE_TREE + "; batch-heavy op mix (removals before/inside/after/interleaved, empty parts, out of range)", 1500, 8000),
    "C15": tree_plan("C15", "exploration", RULE_TREE + "; includes close/reopen and drop/reopen of path-backed persistent nodes", 1500, 8000),
}


def c16_plan(tier, seed, known):
    thorough = tier == "thorough"
    n_hist = 1500 if thorough else 330
    n_l2 = 4000 if thorough else 900
    jobs = split_jobs("e1store", "C16", seed, n_hist, 3, 4, "default", known, tier)
    # L2: sled's failpoints are process-global, so each process runs its simulations one at a time
    jobs += split_jobs("e1store", "C16", seed, n_l2, 4, 1, "default", known, tier, extra=["--l2"], base=50_000_000)
    # crash without goodbye: the history in a child process that _exit()s at storage write k (every k it reaches)
    jobs += split_jobs("e1store", "C16", seed, 400 if thorough else 96, 2, 8, "default", known, tier, extra=["--crash"], base=60_000_000)
    # storage configurations: reopen under another valid configuration, invalid/unsupported ones give clean errors
    jobs += split_jobs("e1store", "C16", seed, 300 if thorough else 40, 1, 4, "default", known, tier, extra=["--configs"], base=65_000_000)
    # reopen while the storage lock is still held (simulated clock): acknowledged data must survive
    jobs += split_jobs("e5d", "C16", seed, 400 if thorough else 80, 1, 1, "default", known, tier, base=70_000_000)
    return {
        "jobs": jobs,
        "level": "fault_enumeration",
        "rule": ("L1: one seeded history (2..12 operations incl. flush, close/reopen, drop/reopen, metadata; depth 1..6, sometimes 8 or 10 in "
                 "thorough; swarm-chosen sled configuration) on a path-backed PmTree or RLN instance is first run fault-free with the full "
                 "oracle (root, leaves, leaf count, metadata, empty list after every step and after every reopen), then re-run once per "
                 "failure position k = 1,2,.. of its storage writes/flushes (until position k is no longer reached: every position is "
                 "enumerated) and per kind {transient, sticky}; one evaluation = one such run; non-trivial and distinct = the armed failure "
                 "fired, keyed by (history digest, k, kind). L2: the same histories with sled's own 'buffer write' failpoint armed after a "
                 "seeded step (a real sled::Error reaches the adapter), oracle: flushed data survives reopen, unflushed data is old-or-new never "
                 "garbage, Ok calls are readable on the same instance, reopening works. Crash: the same histories in a child process that exits "
                 "(no drop, no flush) from the storage hook at write k, for every k the history reaches; every step the child acknowledged is logged "
                 "(synced) before the next one; the parent reopens: data of the last acknowledged flush is present, anything else is old or a "
                 "later-written value. Contended reopen: re-creation while the simulator holds the storage lock until a simulated time."),
        "real": REAL_TREE + ["utils::pm_tree::SledDB adapter (L1: hook returns the adapter's own error value before sled is called; L2: real sled errors)"],
        "stub": ["the storage failure source (L1: guarded hook in SledDB::put/put_batch/close; L2: sled's failpoints feature)", "the caller"],
        "assumptions": ASSUME_TREE + [
            "read failures and open failures are outside C16's quantifier",
            "root consistency after a failed multi-write update is not demanded (the property promises error reporting and survival of earlier acknowledged updates)",
            "L2 timing (when sled's writer meets the failpoint) is not controlled; its oracle has only timing-independent clauses",
        ],
        "simulated_time": ("storage stages: logical steps only (position of the failing / last write in the history); contended-reopen stage: "
                           "simulated retry clock, see coverage.other_counters.simulated_ms"),
        "timeout_s": 1800 if thorough else 900,
    }


PLANS["C16"] = c16_plan


REAL_PROTO = [
    "rln::public::RLN (depth 20, default build: persistent tree on a temporary sled store) — proving, verification, recovery, tree updates, all through Read/Write arguments",
    "arkworks Groth16 prover/verifier with the bundled zkey and witness graph (real proofs)",
    "rln::protocol / rln::circuit functions used by the external-witness entry point",
]
STUB_PROTO = [
    "the transport between nodes (delay relative to membership updates, duplication, in-transit alteration) and the membership log ('contract')",
    "relay logic around the library (root window, pairing of messages for recovery), re-implemented in the harness after rln-cli/src/examples/relay.rs",
    "request/response streams (SimReader/SimWriter)",
]
ASSUME_PROTO = [
    "reference formulas (a1 = H(s,e,m), y = s + x*a1, nullifier = H(a1), rate = H(H(s),limit), x = Keccak-256(signal) LE mod p) are computed by the harness with zerokit's poseidon_hash (trusted) and tiny-keccak",
    "Groth16 soundness: an altered public value or proof is expected to be rejected",
    "inputs are sampled with boundary bias (positions 0, 1, 2^19-1, 2^19, 2^20-1; limits 1, 2, 2^16-1, 2^16; ids 0, limit-1; field values 0, 1, p-1; signals of length 0, 1, 135..137, long); bundled circuit fixes depth 20",
    "proof bytes, blinding factors and temporary paths are never logged (not controlled: thread_rng); verdicts, roots and public values are",
]


def proto_plan(prop, level, rule, n_quick, n_thorough, procs=16, other_variants=()):
    def plan(tier, seed, known):
        n = n_thorough if tier == "thorough" else n_quick
        jobs = split_jobs("e2", prop, seed, n, procs, 1, "default", known, tier, rayons=(1, 1, 1, 2))
        # the same scenarios under other build configurations (other tree backend / key loader), smaller budget
        for k, v in enumerate(other_variants):
            jobs += split_jobs("e2", prop, seed, max(8, n // 8), 2, 1, v, known, tier, rayons=(1, 2), base=20_000_000 * (k + 1))
        return {
            "jobs": jobs,
            "level": level,
            "rule": rule,
            "real": REAL_PROTO,
            "stub": STUB_PROTO,
            "assumptions": ASSUME_PROTO,
            "simulated_time": "logical event order only (membership-log position vs delivery order); nothing in zerokit's protocol code reads a clock",
            "timeout_s": 1800 if tier == "thorough" else 1200,
        }
    return plan


RULE_PROTO = ("one evaluation = one seeded scenario on 1-3 RLN nodes: membership log applied with per-node lag through seeded API shapes, "
              "publishes through the four proving entry points, deliveries (duplicates, alterations) through the three verification entry "
              "points, recoveries; every step is an explicit event of the trace; non-trivial = at least one proof was generated or one "
              "proving request rejected or one recovery evaluated; distinct = distinct trace digest")

PLANS["C01"] = proto_plan("C01", "exploration", RULE_PROTO + "; C01: honest traffic, verifier at the same log position / behind / ahead with the root in its window, final heal + fresh message accepted everywhere", 160, 3000, other_variants=("nodefault", "arkzkey"))
PLANS["C02"] = proto_plan("C02", "fault_enumeration", RULE_PROTO + "; C02: per accepted message the alteration menu (5 public values x {0,1,+1,p-1,random,other message's}, sampled proof bits, signal edits, declared length) is enumerated x 3 entry points, plus verifier states {current, moved on in window, out of window, never had it, empty set, set without the root}", 100, 1500, other_variants=("nodefault", "full"))
PLANS["C03"] = proto_plan("C03", "exploration", RULE_PROTO + "; C03: double-signalling publishers (3 real messages per run: same slot twice, other epoch or id), duplicated deliveries, 40 synthetic share pairs per run with secret/x/ext in {0,1,p-1,random}, x1 = x2 with equal and different y", 120, 2000)
PLANS["C12"] = proto_plan("C12", "exploration", RULE_PROTO + "; C12: valid and malformed proving requests (id = limit, id > limit, id or limit beyond 16 bits, position outside the tree, wrong path length, non-binary direction values, torn request, reader/writer errors) through all four entry points; Ok => verifies is evaluated on every proving step", 200, 3000, other_variants=("nodefault",))
PLANS["C13"] = proto_plan("C13", "fault_enumeration", RULE_PROTO + "; C13: one accepted message, then truncation lengths (all in thorough, boundaries + sample in quick), declared signal lengths in a boundary set, random bytes, malformed root sets, v + k*p aliases of each public value (k = 1..5) at verify / verify_rln_proof / verify_with_roots / recover_id_secret (both arguments)", 100, 1500, other_variants=("nodefault", "arkzkey"))


def c11_plan(tier, seed, known):
    n = 12000 if tier == "thorough" else 640
    jobs = split_jobs("e3", "C11", seed, n, 16, 1, "default", known, tier, rayons=(1, 1, 2, 1))
    return {
        "jobs": jobs,
        "level": "exploration",
        "rule": ("one evaluation = one seeded call history (8..60 calls; depth 1..6 tree-centred, or depth 20 with real proving) issued to two contexts: "
                 "the Rust API first (under catch_unwind), then the extern \"C\" function with Buffer arguments built by the harness; compared after every "
                 "call: flag <=> Ok, output buffer bytes (sentinel-initialised: untouched on failure), verdict cell (preset both ways: untouched on "
                 "failure), leaf count, and root/leaf count/metadata (every leaf + empty list every 4th call); ~10% of mutating calls run with the "
                 "k-th storage write failing on both sides; non-trivial = at least 3 calls compared; distinct = trace digest"),
        "real": ["rln::ffi extern \"C\" functions called with #[repr(C)] Buffer arguments", "rln::public::RLN (reference side)", "persistent tree on a temporary sled store", "Groth16 prover/verifier for the depth-20 histories"],
        "stub": ["the C caller (a Rust harness builds Buffer{ptr,len}, output/verdict cells with sentinels)", "storage failure source (guarded hook)"],
        "assumptions": ["the property quantifies over calls for which the Rust API returns: a history ends when the Rust side panics (counted in rust_side_panicked_run_ends; the only source seen is the open known finding in PmTree's mixed batch arm)",
                        "random outputs (proof bytes, unseeded identities) are compared structurally: lengths, public values, identity relations",
                        "the witness getter has no FFI form; for generate_rln_proof_with_witness the witness is taken from the FFI context through the Rust API"],
        "timeout_s": 1800 if tier == "thorough" else 900,
    }


PLANS["C11"] = c11_plan


def transcript_stage(prop, pools, seeds_per_tier, repeat):
    def custom(api):
        import transcripts
        tier, seed = api["tier"], api["seed"]
        n = seeds_per_tier[1] if tier == "thorough" else seeds_per_tier[0]
        # the thorough tier adds pool sizes that are neither a power of two nor the machine's core count
        pools_ = sorted(set(pools + [3, 5, 8])) if (tier == "thorough" and len(pools) > 2) else pools
        res = {"evaluations": 0, "nontrivial": 0, "counters": {}, "samples": [], "violations": [], "harness_errors": []}
        for k in range(n):
            s = seed * 1000 + k
            rc, info = transcripts.compare(prop, s, pools_, repeat)
            res["evaluations"] += len(pools_) * repeat
            if rc == 2:
                res["harness_errors"].append(f"transcript worker failed (seed {s})")
                continue
            res["nontrivial"] += len(pools_) * repeat
            res["counters"]["transcript_processes"] = res["counters"].get("transcript_processes", 0) + len(pools_) * repeat
            res["counters"]["transcript_lines_compared"] = res["counters"].get("transcript_lines_compared", 0) + info["lines"] * (len(pools_) * repeat - 1)
            if k == 0:
                res["samples"].append({"transcript_seed": s, "pool_sizes": pools_, "lines": info["sample"]})
            if rc == 1:
                argv = ["python3", "lib/transcripts.py", "compare", prop, str(s), ",".join(map(str, pools_)), "--repeat", str(repeat)]
                res["violations"].append({
                    "violation": {"property": prop, "class": f"{prop}|transcript|differs_or_invariant", "clause": "transcript", "detail": f"transcripts differ between processes / pool sizes {pools_} or an invariant line is false (seed {s}); run the replay for the lines"},
                    "trace": {"engine": "transcript", "property": prop, "seed": s, "pools": pools_, "variant": "default"},
                    "replay_argv": argv, "variant": "default", "seed": f"transcript-{s}",
                })
        return res
    return custom


def c18_plan(tier, seed, known):
    thorough = tier == "thorough"
    jobs = split_jobs("e5b", "C18", seed, 2400 if thorough else 320, 16, 1, "default", known, tier, rayons=(1, 2, 4, 2))
    jobs += split_jobs("e5d", "C18", seed, 600 if thorough else 130, 1, 1, "default", known, tier, base=70_000_000)
    return {
        "jobs": jobs,
        "custom": transcript_stage("C18", [1, 2, 4, 16], (2, 8), 1),
        "level": "exploration",
        "rule": ("(b) one evaluation = one seeded scenario of 2-4 caller threads: a cold phase (hash, Poseidon, key derivation, RLN::new racing on the lazily "
                 "initialised globals; the first run of each worker process is really cold) and a shared-instance phase (verify*, get_*, key derivation, FFI "
                 "forms, recover) under the baton scheduler: real threads, only the baton holder runs, hand-over only at yield points (API entry/exit and the "
                 "guarded yield points in /repo), next holder drawn from the PRNG in one of three modes (uniform, sticky, priority with change points); every "
                 "result is compared with the same call made sequentially; non-trivial and distinct = distinct recorded schedule (thread id per decision) with "
                 "at least one hand-over. (a) each transcript process counts as one evaluation: a fixed seeded workload (batch roots, witness vector, witness "
                 "map, proof values, verdicts, identities, hashes) under RAYON_NUM_THREADS in {1,2,4,16}, transcripts must be identical. (d) one evaluation = "
                 "one re-creation of an instance on a location whose lock the simulator holds until simulated time D (grid 0..1111 ms plus long values), the "
                 "retry loop's sleeps advancing the simulated clock"),
        "real": ["rln::public::RLN shared by real caller threads", "lazily initialised ZKEY / POSEIDON globals", "rln::ffi read-only entry points", "sled + pmtree (reads; the contended open path with the real flock and the real WouldBlock recognition)", "rayon pools of arkworks and pmtree at sizes 1/2/4/16 (thorough tier: also 3/5/8)"],
        "stub": ["caller-thread scheduling (baton: the simulator decides who runs at each yield point)", "the clock behind the open-retry back-off (simulated)", "the previous owner holding the storage lock (the simulator holds the flock itself)"],
        "assumptions": ["interleaving is controlled only at yield points: a race confined between two yield points is not seen (Miri was measured too slow for this code: ~15 min per schedule)",
                        "rayon's work stealing inside one call and sled's background threads are not controlled; nothing they decide is logged; pool size is controlled"],
        "simulated_time": "retry clock only: see coverage.other_counters.simulated_ms (sum of simulated back-off over all runs)",
        "timeout_s": 1800 if thorough else 1200,
    }


def c14_plan(tier, seed, known):
    thorough = tier == "thorough"
    jobs = split_jobs("e5b", "C14", seed, 1600 if thorough else 192, 16, 1, "default", known, tier, rayons=(1, 2, 4, 2))
    return {
        "jobs": jobs,
        "custom": transcript_stage("C14", [1, 4], (2, 6), 2),
        "level": "exploration",
        "rule": ("placements of key generation: (i) transcript processes (fresh process x2 per pool size 1 and 4): seeded identities for seeds {empty, 1 byte, 7, 32, "
                 "300 bytes, the documented phrase} through protocol::, RLN:: and ffi:: must be byte-identical across entry points and processes, the two "
                 "documented reference seeds must give the documented identities, relations commitment = H(secret), secret = H(trapdoor, nullifier) and canonical "
                 "encodings hold for seeded and unseeded identities of every entry point, distinct seeds / repeated unseeded calls give distinct identities; "
                 "(ii) baton-scheduled threads (key-derivation heavy scripts, cold and shared phases): each result equals the sequential call, concurrent "
                 "unseeded identities are pairwise distinct; one evaluation = one process or one scheduled scenario; non-trivial/distinct = distinct schedule "
                 "with a hand-over, or a transcript process"),
        "real": ["rln::protocol key generation, rln::public::RLN::*key_gen, rln::ffi::*key_gen", "Poseidon / Keccak / ChaCha20 as linked"],
        "stub": ["caller-thread scheduling (baton)", "process placement (separate worker processes)"],
        "assumptions": ["the relation and canonical-encoding clauses are functions of the output only; they are checked on every identity the simulation produces",
                        "unseeded generation draws from thread_rng (not controlled): only relations and distinctness are asserted"],
        "timeout_s": 1800 if thorough else 900,
    }


PLANS["C18"] = c18_plan
PLANS["C14"] = c14_plan


def c17_plan(tier, seed, known):
    import os
    thorough = tier == "thorough"
    binp = os.path.join(os.environ.get("ZKSIM_BUILD_DIR") or os.path.join(os.path.dirname(os.path.dirname(os.path.abspath(__file__))), "build"), "bin")
    peers = ",".join(f"{v}={binp}/simworker-{v}" for v in ["nodefault", "full", "arkzkey", "stateless"])
    jobs = split_jobs("e4", "C17", seed, 900 if thorough else 60, 6, 1, "default", known, tier, extra=["--peers", peers], rayons=(1, 2, 1, 2))
    return {
        "jobs": jobs,
        "extra_variants": ["nodefault", "full", "arkzkey", "stateless"],
        "build_is_property": ["nodefault", "full", "arkzkey", "stateless", "default"],
        "level": "exploration",
        "rule": ("one evaluation = one seeded scenario on a five-build network: worker processes built with default (persistent tree, snarkjs key), "
                 "--no-default-features (Optimal tree), fullmerkletree (Full tree), arkzkey (arkworks key file) and stateless exchange bytes through the "
                 "driver; the same history of single writes, appends and deletions is fed to the four stateful builds and after every event the roots "
                 "(also against the ideal tree), leaf counts and membership-path bytes must be identical; messages proved on a seeded build (the "
                 "stateless one through a witness taken from a stateful build) must be accepted by every other build and by the stateless verifier given "
                 "the producer's root; once per driver the verifying-key digest and the (ProvingKey, ConstraintMatrices) digest of all builds must agree "
                 "and the arkzkey build must find the two key files equal; non-trivial = at least one proof crossed builds; distinct = trace digest"),
        "real": ["rln built under five feature sets (each a separate simworker binary from /repo's working tree)", "Groth16 prover/verifier, both key loaders (read_zkey, read_arkzkey_from_bytes_uncompressed)", "three tree backends at depth 20"],
        "stub": ["the transport between builds (driver relays bytes over pipes)", "the membership history source"],
        "assumptions": ["histories contain single writes, appends and deletions only (batch shapes belong to C06/C08)", "messages sampled as for C01 with a smaller budget"],
        "timeout_s": 1800 if thorough else 1200,
    }


PLANS["C17"] = c17_plan
SETUP_VARIANTS = ["default", "nodefault", "full", "arkzkey", "stateless"]
