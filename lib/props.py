"""Per-property check plans: which worker builds run which engine over which seed ranges."""

SETUP_VARIANTS = ["default", "nodefault"]

REAL_TREE = [
    "zerokit_utils FullMerkleTree / OptimalMerkleTree (from /repo working tree)",
    "rln::pm_tree_adapter::PmTree + vacp2p_pmtree 2.0.2 + sled 0.34.7 on real files in a per-run scratch directory",
    "rln::public::RLN tree methods through their Read/Write arguments (default build: persistent tree; --no-default-features build: Optimal tree)",
    "rln::hashers::poseidon_hash (also used, trusted, by the reference model)",
]
STUB_TREE = [
    "request/response streams (SimReader/SimWriter: chunked, Interrupted, hard error at byte k)",
    "the caller: one seeded history issued to all backends in lock step",
]
ASSUME_TREE = [
    "Poseidon hash itself is trusted (the model hashes with zerokit's poseidon_hash; its conformance is C09, not claimed)",
    "sampling, not enumeration, of histories; depth <= 6 checks every position, depth 10/20 a boundary set",
    "steps matching an open known finding are not issued to the affected backend (counted in substituted_steps_due_to_known_findings)",
]


def split_jobs(engine, prop, seed, total, procs, threads, variant, known, tier, extra=None, rayons=(1, 2, 4, 2), base=0):
    jobs = []
    per = max(1, total // procs)
    for k in range(procs):
        lo = base + k * per
        hi = base + (k + 1) * per if k < procs - 1 else base + total
        args = ["batch", "--engine", engine, "--prop", prop, "--seed", str(seed), "--from", str(lo), "--to", str(hi),
                "--threads", str(threads), "--tier", tier]
        if known:
            args += ["--known", ",".join(known)]
        if extra:
            args += extra
        jobs.append({"variant": variant, "args": args, "rayon": rayons[k % len(rayons)]})
    return jobs


def tree_plan(prop, level, rule, n_quick, n_thorough, nd_frac=4):
    def plan(tier, seed, known):
        n = n_thorough if tier == "thorough" else n_quick
        jobs = split_jobs("e1", prop, seed, n, 3, 4, "default", known, tier)
        jobs += split_jobs("e1", prop, seed, max(50, n // nd_frac), 1, 4, "nodefault", known, tier, base=10_000_000)
        return {
            "jobs": jobs,
            "level": level,
            "rule": rule,
            "real": REAL_TREE,
            "stub": STUB_TREE,
            "assumptions": ASSUME_TREE,
            "timeout_s": 3000 if tier == "thorough" else 900,
        }
    return plan


RULE_TREE = ("one evaluation = one seeded history (3..40 steps quick, ..60 thorough; swarm-chosen depth, op mix, fault kinds, "
             "sled configuration) executed on every backend in lock step and compared with the ideal tree after every step; "
             "non-trivial = the history changed the model state at least once and at least one full oracle evaluation passed; "
             "distinct = distinct digest of the generated trace")

PLANS = {
    "C06": tree_plan("C06", "exploration", RULE_TREE, 1500, 30000),
    "C07": tree_plan("C07", "exploration", RULE_TREE + "; per probed position every single-field proof alteration in the menu is enumerated", 500, 8000),
    "C08": tree_plan("C08", "exploration", RULE_TREE + "; batch-heavy op mix (removals before/inside/after/interleaved, empty parts, out of range)", 1500, 30000),
    "C15": tree_plan("C15", "exploration", RULE_TREE + "; includes close/reopen and drop/reopen of path-backed persistent nodes", 1500, 30000),
}
