"""Self-tests of the machinery itself.

  ./check selftest-determinism [--quick]   every engine: the same seeds run twice in different
                                           process/thread layouts must produce identical event-log digests
  ./check selftest-sensitivity [ids]       deliberate property-breaking patches (seeded/*/patch.diff, sensitivity/*/patch.diff)
                                           applied one at a time to a scratch worktree of /repo: the quick check of
                                           the property, run against that worktree, must report a violation
"""
import json, os, subprocess, sys, time, shutil, glob


def run_layout(chk, variant, engine, prop, seed, n, procs, threads, known, extra, scratch, tag):
    import props
    jobs = props.split_jobs(engine, prop, seed, n, procs, threads, variant, known, "quick", extra=(extra or []) + ["--logs"], rayons=(1, 2, 4, 2))
    res = chk.run_workers(jobs, scratch, 1500)
    logs = {}
    errs = []
    for r in res:
        if r["result"] is None:
            errs.append(f"{tag}: worker failed rc={r['rc']} {r['stderr'][-200:]}")
            continue
        for s, h in r["result"]["logs"]:
            logs[s] = h
        errs += r["result"]["harness_errors"]
    return logs, errs


def determinism(chk, quick):
    import props
    for v in props.SETUP_VARIANTS:
        if chk.build(v) is None:
            return 2
    known = chk.open_signatures(chk.load_findings())
    binp = chk.BIN
    peers = ",".join(f"{v}={binp}/simworker-{v}" for v in ["nodefault", "full", "arkzkey", "stateless"])
    k = 1 if quick else 2
    plan = [
        ("default", "e1", "C06", 200 * k, None),
        ("default", "e1", "C07", 60 * k, None),
        ("default", "e1", "C08", 200 * k, None),
        ("default", "e1", "C15", 200 * k, None),
        ("nodefault", "e1", "C08", 100 * k, None),
        ("default", "e1store", "C16", 40 * k, None),
        ("default", "e2", "C01", 24 * k, None),
        ("default", "e2", "C02", 16 * k, None),
        ("default", "e2", "C03", 24 * k, None),
        ("default", "e2", "C12", 32 * k, None),
        ("default", "e2", "C13", 16 * k, None),
        ("default", "e3", "C11", 200 * k, None),
        ("default", "e4", "C17", 12 * k, ["--peers", peers]),
        ("default", "e5b", "C18", 48 * k, None),
        ("default", "e5b", "C14", 32 * k, None),
        ("default", "e5d", "C18", 60 * k, None),
    ]
    bad = 0
    total = 0
    t0 = time.time()
    for variant, engine, prop, n, extra in plan:
        scratch = chk.scratch_root()
        try:
            single_thread = engine in ("e2", "e3", "e4", "e5b", "e5d")
            a, ea = run_layout(chk, variant, engine, prop, 7, n, 4 if single_thread else 1, 1 if single_thread else 4, known, extra, scratch, "A")
            b, eb = run_layout(chk, variant, engine, prop, 7, n, 16 if single_thread else 2, 1 if single_thread else 8, known, extra, scratch, "B")
        finally:
            shutil.rmtree(scratch, ignore_errors=True)
        diff = [s for s in a if a.get(s) != b.get(s)] + [s for s in b if s not in a]
        total += len(a)
        status = "ok" if not diff and not ea and not eb and len(a) == n else "DIFFERENT"
        print(f"determinism {engine}/{prop} ({variant}): {len(a)} seeds x 2 layouts: {status}", flush=True)
        if status != "ok":
            bad += 1
            print("   differing seeds:", diff[:5], "errors:", (ea + eb)[:3])
    print(f"determinism: {total} seeds compared, {bad} engine/property pairs differ, {time.time()-t0:.0f}s")
    return 0 if bad == 0 else 1


def sensitivity(chk, only=None):
    """Every recorded property-breaking change is applied to a scratch worktree of /repo (under /tmp, one worktree reused for the
    whole run so that builds stay incremental, removed afterwards together with its build output); the quick checks named in its
    meta.json are run against that worktree (ZKSIM_ALT_REPO: cargo `paths` override, separate build / replay / evidence
    directories) and must report a violation. /repo's working tree and /verif/evidence are not touched."""
    import shutil
    verif = chk.VERIF
    rows = []
    rc = 0
    metas = sorted(glob.glob(os.path.join(verif, "seeded", "*", "meta.json"))) + sorted(glob.glob(os.path.join(verif, "sensitivity", "*", "meta.json")))
    wt = os.path.join("/tmp", "zksens-%d" % os.getpid())
    alt_build = os.path.join(verif, "build-alt", os.path.basename(wt))
    subprocess.run(["git", "-C", "/repo", "worktree", "remove", "--force", wt], capture_output=True)
    shutil.rmtree(wt, ignore_errors=True)
    mk = subprocess.run(["git", "-C", "/repo", "worktree", "add", "-q", "--detach", wt, "HEAD"], capture_output=True, text=True)
    if mk.returncode != 0:
        print(f"cannot create scratch worktree: {mk.stderr[:200]}")
        return 2
    try:
        for meta_path in metas:
            d = os.path.dirname(meta_path)
            meta = json.load(open(meta_path))
            sid = os.path.basename(d)
            if only and sid not in only:
                continue
            patch = os.path.join(d, "patch.diff")
            subprocess.run(["git", "-C", wt, "checkout", "-q", "--", "."], capture_output=True)
            subprocess.run(["git", "-C", wt, "clean", "-fdq", "-e", "target"], capture_output=True)
            ap = subprocess.run(["git", "-C", wt, "apply", patch], capture_output=True, text=True)
            if ap.returncode != 0:
                ap = subprocess.run(["git", "-C", wt, "apply", "-3", patch], capture_output=True, text=True)
            if ap.returncode != 0:
                print(f"sensitivity {sid}: patch does not apply: {ap.stderr[:200]}", flush=True)
                rows.append((sid, "patch does not apply"))
                rc = 1
                continue
            caught_by = []
            env = dict(os.environ)
            env["ZKSIM_ALT_REPO"] = wt
            for prop in meta.get("expected_checks", [meta["property"]]):
                p = subprocess.run([os.path.join(verif, "check"), prop, "--tier", "quick"], capture_output=True, text=True, cwd=verif, env=env)
                viol = [l for l in p.stdout.splitlines() if l.startswith("VIOLATION")]
                if p.returncode == 1 and viol:
                    caught_by.append(prop)
                elif p.returncode == 2:
                    print(f"{sid}: check {prop} ended with a harness error: {[l for l in (p.stdout + p.stderr).splitlines() if 'HARNESS' in l or 'harness' in l][:3]}")
            rows.append((sid, "caught by " + ",".join(caught_by) if caught_by else "MISSED"))
            if not caught_by:
                rc = 1
            print(f"sensitivity {sid}: {rows[-1][1]}", flush=True)
    finally:
        subprocess.run(["git", "-C", "/repo", "worktree", "remove", "--force", wt], capture_output=True)
        shutil.rmtree(wt, ignore_errors=True)
        shutil.rmtree(alt_build, ignore_errors=True)
    return rc


def main(cmd, args, chk):
    if cmd == "selftest-determinism":
        return determinism(chk, "--quick" in args)
    if cmd == "selftest-sensitivity":
        only = [a for a in args if not a.startswith("--")]
        return sensitivity(chk, only or None)
    print(__doc__)
    return 2
